#!/usr/bin/env python3
"""keepseeds.py <spec>...   spec = <src-dir>:<seed-id>:<check>[,<check>...]

Confirms each seeded change once more (tools/seedtest.sh: scratch worktree + overlay build, /repo untouched)
and files it under /verif/seeded/<seed-id>/ : patch.diff, demo_test.go, meta.json. Rewrites seeded/README.md.
"""
import json, os, re, shutil, subprocess, sys, time

HERE = os.path.dirname(os.path.dirname(os.path.abspath(__file__)))
SEEDED = os.path.join(HERE, "seeded")

def head():
    return subprocess.check_output(["git", "-C", "/repo", "log", "--format=%h", "-1"]).decode().strip()

def run_one(src, sid, checks):
    dst = os.path.join(SEEDED, sid)
    os.makedirs(dst, exist_ok=True)
    meta_in = {}
    try:
        meta_in = json.load(open(os.path.join(src, "meta.json")))
    except Exception:
        pass
    if "needs_to_manifest" in meta_in:
        # re-filing a seed that is already under seeded/: map the stored keys back
        meta_in = dict(meta_in, needs=meta_in.get("needs_to_manifest", ""), verified=meta_in.get("authors_verification", ""))
    demo = [f for f in os.listdir(src) if f.endswith("_test.go")][0]
    results, facts = [], {}
    for chk in checks:
        t0 = time.time()
        p = subprocess.run([os.path.join(HERE, "tools", "seedtest.sh"), src, chk], capture_output=True, text=True, timeout=3600)
        out = p.stdout + p.stderr
        for key in ("demo-without-change", "suite-with-change", "demo-with-change"):
            m = re.search(r"^%s: (\w+)" % key, out, re.M)
            if m:
                facts[key] = m.group(1)
        m = re.search(r"^check (\w+) quick: exit=(\d+) (\d+) violation lines", out, re.M)
        first = ""
        mv = re.search(r"^VIOLATION.*\n(.*)", out, re.M)
        if mv:
            first = mv.group(1).strip()[:400]
        results.append({"check": chk, "tier": "quick", "exit": int(m.group(2)) if m else None,
                        "violation_lines": int(m.group(3)) if m else None, "first_violation": first,
                        "seconds": round(time.time() - t0)})
        if m and m.group(2) == "1":
            break
    if os.path.realpath(src) != os.path.realpath(dst):
        shutil.copy(os.path.join(src, "patch.diff"), os.path.join(dst, "patch.diff"))
        shutil.copy(os.path.join(src, demo), os.path.join(dst, "demo_test.go"))
    meta = {
        "id": sid,
        "property": meta_in.get("property", sid.split("-")[0]),
        "summary": meta_in.get("summary", ""),
        "needs_to_manifest": meta_in.get("needs", ""),
        "files": meta_in.get("files", []),
        "author": "independent sub-agent given only the property text and a scratch worktree",
        "authors_verification": meta_in.get("verified", ""),
        "confirmed_by_me": {
            "repo_commit": head(),
            "how": "tools/seedtest.sh: git worktree add --detach /tmp/st-<pid> HEAD; demo alone (must pass); git apply patch.diff; go1.26 test -vet=off -count=1 ./... (must pass); demo (must fail); checks run against the patched files through go build -overlay; worktree removed",
            "demo_passes_without_change": facts.get("demo-without-change") == "PASS",
            "suite_passes_with_change": facts.get("suite-with-change") == "PASS",
            "demo_fails_with_change": facts.get("demo-with-change") == "FAIL",
        },
        "checks_run": results,
        "detected_by": [r["check"] for r in results if r["exit"] == 1],
    }
    json.dump(meta, open(os.path.join(dst, "meta.json"), "w"), indent=1)
    return meta

def readme():
    rows = []
    for sid in sorted(os.listdir(SEEDED)):
        mp = os.path.join(SEEDED, sid, "meta.json")
        if not os.path.isfile(mp):
            continue
        m = json.load(open(mp))
        c = m["confirmed_by_me"]
        ok = c["demo_passes_without_change"] and c["suite_passes_with_change"] and c["demo_fails_with_change"]
        det = ", ".join(m["detected_by"]) or "MISSED by " + ", ".join(r["check"] for r in m["checks_run"])
        rows.append("| %s | %s | %s | %s | %s |" % (sid, m["property"], (m["summary"] or "").replace("|", "/")[:230], "yes" if ok else "NO", det))
    with open(os.path.join(SEEDED, "README.md"), "w") as f:
        f.write("# Seeded changes\n\nEach directory holds one change to bolom009/go-clipper2 written by an independent sub-agent that saw only the property text "
                "and its own scratch worktree: `patch.diff` (git apply), `demo_test.go` (fails with the change, passes without), `meta.json` "
                "(property, what it needs to manifest, what was run). None of them is ever committed to /repo. 'confirmed' = I re-ran: suite passes with the change, "
                "demo fails with it, demo passes without it. 'detected by' = the quick tier of that check exits 1 with a VIOLATION line on the changed tree.\n\n"
                "| id | property | change | confirmed | detected by |\n|---|---|---|---|---|\n" + "\n".join(rows) + "\n")

if __name__ == "__main__":
    for spec in sys.argv[1:]:
        src, sid, checks = spec.split(":")
        m = run_one(src, sid, checks.split(","))
        print(sid, m["confirmed_by_me"], "detected_by", m["detected_by"], flush=True)
        readme()
    readme()
