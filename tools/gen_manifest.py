#!/usr/bin/env python3
"""Regenerates /verif/MANIFEST.json from the table below (kept next to the checks so the two stay in step)."""
import json, os, sys
HERE = os.path.dirname(os.path.dirname(os.path.abspath(__file__)))
ALL = ["C%02d" % i for i in range(1, 20)]
# id -> (technique, level text, level note, design ref)
CHECKS = {
 "C01": ("bounded-exhaustive input-space exploration of the real BooleanOpPaths64 against an exact winding-number reference model",
         "Every closed (subject, clip) input of the stated scopes (all vertex sequences on small lattices under 4-5 embeddings) x 16 (clip type, fill rule) is executed on the implementation and compared, witness by witness, with an independent exact winding oracle; complete enumeration, no sampling. Right level: the property quantifies over all inputs and the failure modes (ties, rounding, self-intersection repair) are combinatorial in small vertex configurations.",
         "small-scope hypothesis (<=6 vertices/path, <=3 paths, 5 embeddings, plus the two-row, empty-subject and large parametric families); witness lattice pitch 1/2; the ~200-line exact oracle is trusted", "DESIGN.md 4/C01"),
 "C02": ("bounded-exhaustive input-space exploration of the real engine (all 16 configurations x option settings) against structural and exact winding-number oracles",
         "Every closed input of the stated scopes x 16 (clip type, fill rule) x {preserveCollinear, reverseSolution} is executed; each solution is checked for >=3 vertices, no repeated cyclic neighbours, total winding in {0,1} ({-1,0} reversed) at every witness > 2 units from solution edges, reversal = same region with negated area, re-union region-equal. Complete enumeration of the scopes.",
         "small-scope hypothesis; winding defects confined to the 2-unit band of solution edges are allowed by the statement", "DESIGN.md 4/C02"),
 "C14": ("exhaustive enumeration of operand alphabets and small path/polygon spaces against math/big reference predicates",
         "All point triples / quadruples over explicit operand alphabets (0, +-1, +-2, 2^26+1, 2^29...) and all paths/polygons of P(3,3..6), P(4,3..5) under unit, stride-10 and 2^28 embeddings are pushed through Area64, AreaPaths64, IsPositive64, PointInPolygon, GetBounds64, isCollinear, productsAreEqual and compared with exact big-integer arithmetic.",
         "finite operand alphabet; reference predicates in math/big", "DESIGN.md 4/C14"),
 "C15": ("exhaustive enumeration of small paths; reference model = explicit-state exploration of the vertex-removal rewriting system",
         "For every closed and open path of the scopes the set of all states reachable by deleting exactly-collinear vertices (<= 2^n subsets) is explored; TrimCollinear64's answer must be a reachable terminal state (or empty when < 3 vertices can remain), with exact area equality, end points kept, idempotence and input unchanged.",
         "<= 7 vertices, four embeddings", "DESIGN.md 4/C15"),
 "C19": ("bounded-exhaustive exploration comparing the library's own seven solutions per input with each other (exact areas + witness-wise set identities), plus a complete parametric grid of large inputs",
         "For every input of the scopes and every fill rule the seven solutions U, I, D(S,C), D(C,S), X, U(S), U(C) are computed by the real library; exact big-integer areas must satisfy the four identities within 2 x edge length and the solutions must partition each other witness by witness; the parametric large family (64..2048 vertices) is enumerated completely over its parameter grid.",
         "small-scope hypothesis for lattice scopes; large family is a finite parameter grid; areas used only when the C02 oracle holds for the outputs", "DESIGN.md 4/C19"),
 "C03": ("bounded-exhaustive enumeration of an explicit entry-point table x finite argument alphabets on the real library, with in-process panic capture, worker-process death detection and a per-call hang watchdog",
         "Every exported entry point family (boolean 64/D, trees, engines, offsetting, rectangle clipping, Minkowski, unary path functions, helpers) is called on every member of explicitly enumerated degenerate-rich argument alphabets (all paths of P(3,0..4), nil/empty/degenerate clips, enum values incl. NoClip and out-of-range, empty/inverted rectangles, 13 deltas, all join/end types, precisions). A panic, a worker death, a call exceeding 60 s or a false Execute flag is a violation; only ErrPrecisionRange from D entry points outside [-8,8] is tolerated.",
         "paths of at most 4-5 points, 2 paths per set; huge deltas only with default arc tolerance", "DESIGN.md 4/C03"),
 "C04": ("bounded-exhaustive input-space exploration of BooleanOpPolyTree64/D against the flat result and an exact witness-lattice containment oracle",
         "For every input of the scopes (incl. nesting families: frame + 3 rectangles, 17-piece bars menu, bitmaps of touching cells, rectangles with a cancelling duplicate, regression inputs) x clip types x fill rules the tree is compared with the flat result (same polygons once each), IsHole with exact orientation, parent/child alternation, and, on the exact witness lattice, child-in-parent, sibling disjointness and innermost-parent (every container of a node is an ancestor).",
         "small-scope hypothesis (known not to reach owner-bookkeeping defects that need dozens of touching pieces, see DESIGN 5); containment undetermined when no witness is > 2 units from both boundaries; known findings KF-05, KF-06", "DESIGN.md 4/C04"),
 "C05": ("bounded-exhaustive enumeration of simple polygons x offset configurations against a distance-field oracle",
         "Every simple polygon of the scopes (exact simplicity test, both orientations, holes, two groups) x 16 deltas x join types x miter limits x arc tolerances is offset by the real library and compared on a witness lattice with exact windings and float distances: inside/outside obligations for growth and shrink (complement), normal-band points, |delta|<0.5 identity, canonical result.",
         "<= 5 vertices per polygon; float64 distances with 1e-6 guard; large deltas judged on targeted ring probes, not a full lattice", "DESIGN.md 4/C05"),
 "C06": ("exhaustive enumeration of the concretised input language of the rectangle-clip location automaton (one lattice coordinate per location class) against an exact winding oracle",
         "All paths of P(R5,3..5[,6]), R6, a sheared lattice, two-path sets and 6 other rectangles are clipped by the real RectClipPaths64; result vertices within rect+1, exact winding equal to the input's inside (> 2 from boundary and input edges) and zero outside, inside paths unchanged, outside paths vanish.",
         "<= 5/6 vertices; fixed rectangles per scope", "DESIGN.md 4/C06"),
 "C07": ("bounded-exhaustive differential enumeration: every D entry point x 18 precisions x shapes x fraction patterns against its 64-bit counterpart on exactly (big.Rat) quantised input",
         "Each D entry point is compared with the 64-bit function applied to the reference-quantised input with scalars x 10^p, structure identical and coordinates within 1 ulp of the exact unscaling; trees identical with scale 10^p; quantiser helpers incl. ties; out-of-range precisions must panic with ErrPrecisionRange on all 14 D entry points.",
         "finite float alphabet; 64-bit counterparts trusted here (decided by the other checks)", "DESIGN.md 4/C07"),
 "C08": ("bounded-exhaustive enumeration of patterns x paths against the union-of-parallelograms reference on a witness lattice",
         "Every (pattern, path, closed/open, sum/diff) of the scopes is run through the real Minkowski functions; witnesses robustly inside a reference parallelogram (depth > 2) must be inside, witnesses > 2 from all parallelograms outside; result canonical; arguments exchanged for closed paths; the same inputs translated by vectors of both signs up to 2^52 (result translated back) and scaled by 1.07e8 ... 2^54 (exact 128-bit winding at images of base witnesses).",
         "patterns <= 4 vertices, paths <= 4 points; float64 distances with guard", "DESIGN.md 4/C08"),
 "C09": ("bounded-exhaustive enumeration of open lines x clips (x closed subjects) x 16 configurations against exact winding classification of sampled line points",
         "Every open polyline of the scopes against every clip (and a three-party scope for Union) x clip types x fill rules through ExecuteOC (and ClipperD / tree execution on a stride); each segment sampled at 16 rational parameters, classified by exact winding when > 2 units from closed edges, compared with coverage by the open solution; open solution stays on the lines; closed solution unaffected.",
         "lines <= 5 vertices, clips <= 4 vertices; float64 distances with guard", "DESIGN.md 4/C09"),
 "C10": ("bounded-exhaustive enumeration of polylines x end types x join types x deltas against a stroke distance oracle",
         "Every polyline of 1-3(4) points over L(4) (duplicates, collinear runs, reversals; 4-point lines over L(3), a 2^27-scaled copy and single points at huge centres) x 4 end types x 4 join types x 5 deltas is offset by the real library and checked on a witness lattice: normal bands inside, far points outside, square/round caps, butt ends, single-point squares/discs, canonical result. Violations caused by the recorded end-cap defect are attributed by a counterfactual build.",
         "<= 4 points; float64 distances; known finding KF-03", "DESIGN.md 4/C10"),
 "C11": ("exhaustive enumeration of the concretised input language of the line clipper (one lattice coordinate per location class) against a sampled coverage oracle",
         "All open polylines of P(R5,2..5), R6, sheared lattice, 6 other rectangles through the four line-clipping entry points: vertices in rect+1 and on the line, sampled interior points covered / exterior not, input order, one piece per crossing segment, every result segment along the input line.",
         "<= 5 vertices; float64 distances with guard", "DESIGN.md 4/C11"),
 "C12": ("explicit-state breadth-first search over operation histories of the real engine objects (state = structural dump hash, successor = replay + 1 operation), plus an exhaustive input-immutability sweep",
         "BFS over histories of AddPaths/Execute/ExecuteOC/ExecutePolyTree (all solution-argument aliasing modes) on Clipper64, ClipperD and ClipperOffset up to depth 5-7; every execute transition is compared with a fresh engine given the same paths; caller-owned inputs compared with pristine copies; paths held by a solution argument on entry must not be overwritten in place; every path-level call on P(3,0..4) with before/after deep comparison incl. spare capacity.",
         "history depth and AddPaths count bounded; states merged by a dump covering every reachable field incl. stale slice tails", "DESIGN.md 4/C12"),
 "C13": ("exhaustive enumeration of base inputs x a finite magnitude grid (4 translations, 8 scalings up to 2^56, 5 scalings centred on the origin) with exact 128-bit winding oracles evaluated at transformed witnesses",
         "Boolean operations, Area64, PointInPolygon, SimplifyPath64, RectClipPaths64, RectClipLinesPaths64 and InflatePaths64 are run on translated/scaled copies of every base input; the transformed solution is read with exact 128-bit arithmetic at the images of base witnesses and compared with the exact reference answer of the base input.",
         "finite magnitude grid; base inputs <= 5 vertices", "DESIGN.md 4/C13"),
 "C16": ("exhaustive enumeration of small paths x epsilons x closed/open with exact big-integer distance oracle and translation/scale/D-variant differential runs",
         "Every path of P(3,3..6), P(4,4[,5]) under three embeddings x 7 epsilons x closed/open through SimplifyPath64/D/Paths: sub-sequence, ends kept, no retained vertex clearly within epsilon (exact), area kept at epsilon 0, identical retained vertices under 2 translations, 4 integer scalings and 4 power-of-two float scalings; Paths variants with 3-4 paths of different lengths per call equal to the single-path results; open paths under epsilons up to +Inf keep their end points.",
         "<= 6 (7) vertices; 1e-9 relative guard at the epsilon boundary", "DESIGN.md 4/C16"),
 "C17": ("exhaustive enumeration of base inputs x their orbit of respellings (metamorphic region equality on the exact witness lattice) plus double execution and cross-process shard-hash comparison",
         "For every base input and applicable configuration every start rotation, repeated closing/any vertex, reversal law, subject/clip exchange, path permutation and lattice symmetry is executed and must give a region-equal result; 45 representative API calls are executed twice in-process and in two passes by different worker processes with identical outputs.",
         "small-scope hypothesis as C01", "DESIGN.md 4/C17"),
 "C18": ("stateless model checking of the implementation: cooperative scheduler + preemption-bounded DFS over all schedules of 2-3-thread harnesses at AST-derived scheduling points, complemented by a free-running race-detector pass of the same bodies",
         "All schedules (preemption bound 2, <= 24/36 recorded points) of all ordered pairs (and triples) of an 18-call alphabet on shared read-only inputs are executed on an instrumented build (yield points derived from the current tree's AST: package-level variable accesses, exported function entry/exit, engine loops); every call must return its solo result; the same bodies run free in a -race build, any report/crash/mismatch is a violation.",
         "scheduling points only where the instrumenter puts them; other interference left to the race pass", "DESIGN.md 4/C18"),
}
NOT_YET = "check not built yet in this round (planned in DESIGN.md section 4); no claim is made"
def main():
    checks = []
    for pid in ALL:
        if pid not in CHECKS: continue
        tech, text, note, ref = CHECKS[pid]
        checks.append({
            "property_id": pid,
            "quick_cmd": "./run.sh %s quick" % pid,
            "thorough_cmd": "./run.sh %s thorough" % pid,
            "evidence_file": "/verif/evidence/%s.json" % pid,
            "replay_cmd_template": "./run.sh %s --replay {path}" % pid,
            "engine": "vcheck",
            "level_claimed": {"category": "model_checking", "text": text, "design_ref": ref},
            "level_note": note,
            "technique": tech,
        })
    m = {
        "version": 1,
        "setup_cmd": "./setup.sh",
        "hooks": {
            "guard": "verif",
            "enable": "go build -tags verif (run.sh builds /verif/cmd/vcheck against /repo through the go.mod replace directive)",
            "baseline_off_cmd": "cd /repo && GOFLAGS=-mod=mod GOPROXY=off GOSUMDB=off GOTOOLCHAIN=local go1.26 test -json -vet=off -count=1 -timeout 25m ./...",
            "source_commits": json.load(open(os.path.join(HERE, "tools", "hook_commits.json"))),
            "add_only": True,
        },
        "engines": [{"name": "vcheck", "path": "/verif/cmd/vcheck", "serves_properties": sorted(CHECKS),
                     "kind_free_text": "hand-written bounded-exhaustive explorer: coordinator + 16 worker subprocesses enumerating indexed finite case spaces on the real library, exact reference models, history BFS (C12), schedule DFS (C18)"}],
        "checks": checks,
        "not_applicable": [{"property_id": p, "reason": NOT_YET} for p in ALL if p not in CHECKS],
        "notes": "All checks rebuild from /repo's working tree (run.sh). Known findings: /verif/known_findings.json. See DESIGN.md.",
    }
    json.dump(m, open(os.path.join(HERE, "MANIFEST.json"), "w"), indent=1)
    print("wrote MANIFEST.json with", len(checks), "checks")
main()
