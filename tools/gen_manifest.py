#!/usr/bin/env python3
"""Regenerates /verif/MANIFEST.json from the table below (kept next to the checks so the two stay in step)."""
import json, os, sys
HERE = os.path.dirname(os.path.dirname(os.path.abspath(__file__)))
ALL = ["C%02d" % i for i in range(1, 20)]
# id -> (technique, level text, level note, design ref)
CHECKS = {
 "C01": ("bounded-exhaustive input-space exploration of the real BooleanOpPaths64 against an exact winding-number reference model",
         "Every closed (subject, clip) input of the stated scopes (all vertex sequences on small lattices under 4-5 embeddings) x 16 (clip type, fill rule) is executed on the implementation and compared, witness by witness, with an independent exact winding oracle; complete enumeration, no sampling. Right level: the property quantifies over all inputs and the failure modes (ties, rounding, self-intersection repair) are combinatorial in small vertex configurations.",
         "small-scope hypothesis (<=6 vertices/path, <=3 paths, 5 embeddings); witness lattice pitch 1/2; the ~200-line exact oracle is trusted", "DESIGN.md 4/C01"),
 "C02": ("bounded-exhaustive input-space exploration of the real engine (all 16 configurations x option settings) against structural and exact winding-number oracles",
         "Every closed input of the stated scopes x 16 (clip type, fill rule) x {preserveCollinear, reverseSolution} is executed; each solution is checked for >=3 vertices, no repeated cyclic neighbours, total winding in {0,1} ({-1,0} reversed) at every witness > 2 units from solution edges, reversal = same region with negated area, re-union region-equal. Complete enumeration of the scopes.",
         "small-scope hypothesis; winding defects confined to the 2-unit band of solution edges are allowed by the statement", "DESIGN.md 4/C02"),
 "C14": ("exhaustive enumeration of operand alphabets and small path/polygon spaces against math/big reference predicates",
         "All point triples / quadruples over explicit operand alphabets (0, +-1, +-2, 2^26+1, 2^29...) and all paths/polygons of P(3,3..6), P(4,3..5) under unit, stride-10 and 2^28 embeddings are pushed through Area64, AreaPaths64, IsPositive64, PointInPolygon, GetBounds64, isCollinear, productsAreEqual and compared with exact big-integer arithmetic.",
         "finite operand alphabet; reference predicates in math/big", "DESIGN.md 4/C14"),
 "C15": ("exhaustive enumeration of small paths; reference model = explicit-state exploration of the vertex-removal rewriting system",
         "For every closed and open path of the scopes the set of all states reachable by deleting exactly-collinear vertices (<= 2^n subsets) is explored; TrimCollinear64's answer must be a reachable terminal state (or empty when < 3 vertices can remain), with exact area equality, end points kept, idempotence and input unchanged.",
         "<= 7 vertices, four embeddings", "DESIGN.md 4/C15"),
 "C19": ("bounded-exhaustive exploration comparing the library's own seven solutions per input with each other (exact areas + witness-wise set identities), plus a complete parametric grid of large inputs",
         "For every input of the scopes and every fill rule the seven solutions U, I, D(S,C), D(C,S), X, U(S), U(C) are computed by the real library; exact big-integer areas must satisfy the four identities within 2 x edge length and the solutions must partition each other witness by witness; the parametric large family (64..2048 vertices) is enumerated completely over its parameter grid.",
         "small-scope hypothesis for lattice scopes; large family is a finite parameter grid; areas used only when the C02 oracle holds for the outputs", "DESIGN.md 4/C19"),
}
NOT_YET = "check not built yet in this round (planned in DESIGN.md section 4); no claim is made"
def main():
    checks = []
    for pid in ALL:
        if pid not in CHECKS: continue
        tech, text, note, ref = CHECKS[pid]
        checks.append({
            "property_id": pid,
            "quick_cmd": "./run.sh %s quick" % pid,
            "thorough_cmd": "./run.sh %s thorough" % pid,
            "evidence_file": "/verif/evidence/%s.json" % pid,
            "replay_cmd_template": "./run.sh %s --replay {path}" % pid,
            "engine": "vcheck",
            "level_claimed": {"category": "model_checking", "text": text, "design_ref": ref},
            "level_note": note,
            "technique": tech,
        })
    m = {
        "version": 1,
        "setup_cmd": "./setup.sh",
        "hooks": {
            "guard": "verif",
            "enable": "go build -tags verif (run.sh builds /verif/cmd/vcheck against /repo through the go.mod replace directive)",
            "baseline_off_cmd": "cd /repo && GOFLAGS=-mod=mod GOPROXY=off GOSUMDB=off GOTOOLCHAIN=local go1.26 test -json -vet=off -count=1 -timeout 25m ./...",
            "source_commits": json.load(open(os.path.join(HERE, "tools", "hook_commits.json"))),
            "add_only": True,
        },
        "engines": [{"name": "vcheck", "path": "/verif/cmd/vcheck", "serves_properties": sorted(CHECKS),
                     "kind_free_text": "hand-written bounded-exhaustive explorer: coordinator + 16 worker subprocesses enumerating indexed finite case spaces on the real library, exact reference models, history BFS (C12), schedule DFS (C18)"}],
        "checks": checks,
        "not_applicable": [{"property_id": p, "reason": NOT_YET} for p in ALL if p not in CHECKS],
        "notes": "All checks rebuild from /repo's working tree (run.sh). Known findings: /verif/known_findings.json. See DESIGN.md.",
    }
    json.dump(m, open(os.path.join(HERE, "MANIFEST.json"), "w"), indent=1)
    print("wrote MANIFEST.json with", len(checks), "checks")
main()
