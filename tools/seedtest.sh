#!/bin/bash
# seedtest.sh <seed-dir> <check-id>[,<check-id>...] [tier]
# Confirms a seeded change in a scratch worktree (suite passes with it; demo fails with it and passes
# without it) and runs the listed checks against it through a build overlay, so /repo is never touched
# and several seeds can be tried while other work goes on. Prints one line per fact.
set -u
seed="$(cd "$1" && pwd)"; ids="$2"; tier="${3:-quick}"
export GOFLAGS=-mod=mod GOPROXY=off GOSUMDB=off GOTOOLCHAIN=local
wt=/tmp/st-$$; out=/tmp/st-$$-out
git -C /repo worktree add -q --detach $wt HEAD || exit 2
cleanup() { git -C /repo worktree remove --force $wt 2>/dev/null; rm -rf $out $wt; }
trap cleanup EXIT
demo=$(ls "$seed"/*_test.go | head -1)
cd $wt
cp "$demo" zz_seed_demo_test.go
if go1.26 test -vet=off -count=1 -run 'TestSeed' . >$wt.log 2>&1; then echo "demo-without-change: PASS (ok)"; else echo "demo-without-change: FAIL (seed unusable on this tree)"; tail -5 $wt.log; fi
rm -f zz_seed_demo_test.go
if ! git apply "$seed/patch.diff"; then echo "patch does not apply"; rm -f $wt.log; exit 2; fi
if go1.26 test -vet=off -count=1 ./... >$wt.log 2>&1; then echo "suite-with-change: PASS (ok)"; else echo "suite-with-change: FAIL (seed invalid)"; tail -5 $wt.log; fi
cp "$demo" zz_seed_demo_test.go
if go1.26 test -vet=off -count=1 -run 'TestSeed' . >$wt.log 2>&1; then echo "demo-with-change: PASS (seed does not manifest!)"; else echo "demo-with-change: FAIL (ok)"; fi
rm -f zz_seed_demo_test.go $wt.log
# overlay: every changed or added non-test file
python3 - "$wt" > $wt/overlay.json <<'PY'
import json,subprocess,sys,os
wt=sys.argv[1]
names=subprocess.check_output(['git','-C',wt,'status','--porcelain']).decode().splitlines()
rep={}
for l in names:
    f=l[3:].strip()
    if f.endswith('.go') and not f.endswith('_test.go'):
        rep[os.path.join('/repo',f)]=os.path.join(wt,f)
print(json.dumps({"Replace":rep}))
PY
cd /verif
mkdir -p $out
for id in ${ids//,/ }; do
  start=$(date +%s)
  res=$(VERIF_OVERLAY=$wt/overlay.json VERIF_OUT=$out ./run.sh "$id" "$tier" 2>&1); rc=$?
  echo "check $id $tier: exit=$rc $(echo "$res" | grep -c '^VIOLATION') violation lines, $(( $(date +%s)-start )) s"
  echo "$res" | grep -A1 '^VIOLATION' | head -4 | cut -c1-400
  echo "$res" | grep -E '^(INTERNAL|KNOWN)' | head -3 | cut -c1-200
done
