#!/bin/bash
# Offline setup: build the explorer once (plain and -race) so that the build cache is warm.
set -e
cd "$(dirname "$0")"
export GOFLAGS=-mod=mod GOPROXY=off GOSUMDB=off GOTOOLCHAIN=local
./run.sh --build
mkdir -p .work
CGO_ENABLED=1 go1.26 build -race -tags verif -o .work/vcheck-race-warm ./cmd/vcheck && rm -f .work/vcheck-race-warm
CGO_ENABLED=0 go1.26 build -tags "verif c18" -o .work/vcheck-c18-warm ./cmd/vcheck 2>/dev/null || true
rm -f .work/vcheck-c18-warm
echo "setup ok: $(bin/vcheck list | tr '\n' ' ')"
