#!/bin/bash
# Offline setup: build the explorer once so that the build cache is warm.
set -e
cd "$(dirname "$0")"
export GOFLAGS=-mod=mod GOPROXY=off GOSUMDB=off GOTOOLCHAIN=local CGO_ENABLED=0
./run.sh --build
echo "setup ok: $(bin/vcheck list | tr '\n' ' ')"
