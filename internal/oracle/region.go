package oracle

import (
	"fmt"

	clipper "github.com/bolom009/go-clipper2"
)

// Region evaluates, for one (subject, clip) input, the reference answer of
// every (clip type, fill rule) on the witness lattice and compares solutions
// against it.
type Region struct {
	G        *Grid
	S, C     Paths
	WS, WC   []int16
	WSol     []int16
	OnIn     []bool
	OnSol    []bool
	diff     []int32
	AnyS     bool
	AnyC     bool
	inS, inC [4][]bool
	have     [4]bool
	scale    int64
	step     int64
	margin   int64
}

// Mismatch describes one witness where reference and implementation differ.
type Mismatch struct {
	X4, Y4   int64 // witness in scaled units
	Scale    int64
	WS, WC   int
	WSol     int
	Expected bool
	Got      bool
	What     string
}

func (m *Mismatch) String() string {
	return fmt.Sprintf("%s at witness (%g,%g): winding subject=%d clip=%d solution=%d expected-inside=%v got-inside=%v",
		m.What, float64(m.X4)/float64(m.Scale), float64(m.Y4)/float64(m.Scale), m.WS, m.WC, m.WSol, m.Expected, m.Got)
}

func grow16(b []int16, n int) []int16 {
	if cap(b) < n {
		return make([]int16, n)
	}
	b = b[:n]
	for i := range b {
		b[i] = 0
	}
	return b
}

func growB(b []bool, n int) []bool {
	if cap(b) < n {
		return make([]bool, n)
	}
	b = b[:n]
	for i := range b {
		b[i] = false
	}
	return b
}

// SetInput prepares the lattice for the input. scale is 4 (small coordinates)
// or 2 (big embeddings); step is the witness pitch in scaled units.
func (r *Region) SetInput(S, C Paths, scale, step, margin int64) {
	r.S, r.C = S, C
	r.scale, r.step, r.margin = scale, step, margin
	minX, minY, maxX, maxY, ok := Bounds(S, C)
	if !ok {
		minX, minY, maxX, maxY = 0, 0, 0, 0
	}
	r.setGrid(NewGrid(minX, minY, maxX, maxY, margin, scale, step))
}

func (r *Region) setGrid(g *Grid) {
	r.G = g
	n := g.N()
	r.WS = grow16(r.WS, n)
	r.WC = grow16(r.WC, n)
	r.WSol = grow16(r.WSol, n)
	r.OnIn = growB(r.OnIn, n)
	r.OnSol = growB(r.OnSol, n)
	if cap(r.diff) < n+1 {
		r.diff = make([]int32, n+1)
	} else {
		r.diff = r.diff[:n+1]
		for i := range r.diff {
			r.diff[i] = 0
		}
	}
	r.AnyS = g.Wind(r.S, r.WS, r.OnIn, r.diff)
	r.AnyC = g.Wind(r.C, r.WC, r.OnIn, r.diff)
	r.have = [4]bool{}
}

func (r *Region) fillArrays(fr clipper.FillRule) ([]bool, []bool) {
	k := int(fr)
	if !r.have[k] {
		n := r.G.N()
		r.inS[k] = growB(r.inS[k], n)
		r.inC[k] = growB(r.inC[k], n)
		a, b := r.inS[k], r.inC[k]
		for i := 0; i < n; i++ {
			a[i] = Fill(fr, r.WS[i])
			b[i] = Fill(fr, r.WC[i])
		}
		r.have[k] = true
	}
	return r.inS[k], r.inC[k]
}

// covers reports whether the grid covers the bounds of sol grown by 1.
func (r *Region) covers(sol Paths) bool {
	minX, minY, maxX, maxY, ok := Bounds(sol)
	if !ok {
		return true
	}
	g := r.G
	return (minX-1)*g.S >= g.X0 && (minY-1)*g.S >= g.Y0 &&
		(maxX+1)*g.S <= g.WX(g.NX-1) && (maxY+1)*g.S <= g.WY(g.NY-1)
}

// LoadSolution computes the winding array of a solution. If the solution
// sticks out of the lattice the lattice is rebuilt to cover it.
func (r *Region) LoadSolution(sol Paths) {
	if !r.covers(sol) {
		minX, minY, maxX, maxY, _ := Bounds(r.S, r.C, sol)
		r.setGrid(NewGrid(minX, minY, maxX, maxY, r.margin, r.scale, r.step))
	}
	n := r.G.N()
	for i := 0; i < n; i++ {
		r.WSol[i] = 0
		r.OnSol[i] = false
	}
	r.G.Wind(sol, r.WSol, r.OnSol, r.diff)
}

// CheckBoolean compares the loaded solution (read with NonZero) with the
// reference answer of (ct, fr). band is the tolerance in units (2). It
// returns nil when they agree at every witness farther than band from every
// input edge, plus whether the reference region and the solution are both
// non-empty on the lattice (the non-triviality rule).
func (r *Region) CheckBoolean(ct clipper.ClipType, fr clipper.FillRule, band int64) (*Mismatch, bool) {
	inS, inC := r.fillArrays(fr)
	n := r.G.N()
	sol := r.WSol
	anyExp, anyGot := false, false
	var bad []int
	for i := 0; i < n; i++ {
		var e bool
		switch ct {
		case clipper.Intersection:
			e = inS[i] && inC[i]
		case clipper.Union:
			e = inS[i] || inC[i]
		case clipper.Difference:
			e = inS[i] && !inC[i]
		default:
			e = inS[i] != inC[i]
		}
		g := sol[i] != 0
		if e {
			anyExp = true
		}
		if g {
			anyGot = true
		}
		if e != g && !r.OnIn[i] && !r.OnSol[i] {
			bad = append(bad, i)
		}
	}
	for _, i := range bad {
		px, py := r.G.WX(i%r.G.NX), r.G.WY(i/r.G.NX)
		if r.G.FarFromEdges(px, py, band, true, r.S, r.C) {
			e := sol[i] == 0
			return &Mismatch{X4: px, Y4: py, Scale: r.G.S, WS: int(r.WS[i]), WC: int(r.WC[i]), WSol: int(sol[i]),
				Expected: e, Got: !e, What: "region mismatch (> 2 units from every input edge)"}, anyExp && anyGot
		}
	}
	return nil, anyExp && anyGot
}

// CheckWinding01 checks that the loaded solution's winding number is within
// {lo..hi} at every witness farther than band from every solution edge.
func (r *Region) CheckWinding01(sol Paths, lo, hi int16, band int64) *Mismatch {
	n := r.G.N()
	for i := 0; i < n; i++ {
		w := r.WSol[i]
		if (w < lo || w > hi) && !r.OnSol[i] {
			px, py := r.G.WX(i%r.G.NX), r.G.WY(i/r.G.NX)
			if r.G.FarFromEdges(px, py, band, true, sol) {
				return &Mismatch{X4: px, Y4: py, Scale: r.G.S, WSol: int(w),
					What: fmt.Sprintf("solution winding number %d outside [%d,%d] (> 2 units from every solution edge)", w, lo, hi)}
			}
		}
	}
	return nil
}

// SameRegion compares two path sets read with NonZero on the current lattice:
// nil if they agree at every witness farther than band from the edges of
// `edges`. Both are wound into scratch arrays.
func (r *Region) SameRegion(a, b Paths, band int64, edges ...Paths) *Mismatch {
	g := r.G
	if !r.covers(a) || !r.covers(b) {
		minX, minY, maxX, maxY, _ := Bounds(r.S, r.C, a, b)
		r.setGrid(NewGrid(minX, minY, maxX, maxY, r.margin, r.scale, r.step))
		g = r.G
	}
	n := g.N()
	wa := make([]int16, n)
	wb := make([]int16, n)
	on := make([]bool, n)
	g.Wind(a, wa, on, r.diff)
	g.Wind(b, wb, on, r.diff)
	for i := 0; i < n; i++ {
		if (wa[i] != 0) != (wb[i] != 0) && !on[i] {
			px, py := g.WX(i%g.NX), g.WY(i/g.NX)
			if g.FarFromEdges(px, py, band, true, edges...) {
				return &Mismatch{X4: px, Y4: py, Scale: g.S, WS: int(wa[i]), WSol: int(wb[i]), Expected: wa[i] != 0, Got: wb[i] != 0,
					What: "two results differ in region"}
			}
		}
	}
	return nil
}
