// Package oracle holds the reference models. They share no code with the
// library: winding numbers by exact signed crossing counts on a witness
// lattice, exact distance tests, exact (math/big) areas.
package oracle

import (
	"math/big"

	clipper "github.com/bolom009/go-clipper2"
)

type Pt = clipper.Point64
type Path = clipper.Path64
type Paths = clipper.Paths64

// Grid is a witness lattice. Input coordinates are multiplied by S (4 or 2),
// so vertices are multiples of S and witness coordinates X0+i*Step,
// Y0+j*Step are odd: a witness is never a vertex and never on a vertex row.
type Grid struct {
	S      int64 // coordinate scale
	Step   int64 // witness pitch in scaled units (even)
	X0, Y0 int64 // first witness (scaled, odd)
	NX, NY int
}

// NewGrid builds the lattice covering bounds grown by margin units. pitchNum
// is the pitch in scaled units (Step); S is the scale.
func NewGrid(minX, minY, maxX, maxY int64, margin int64, S, step int64) *Grid {
	g := &Grid{S: S, Step: step}
	g.X0 = (minX-margin)*S + 1
	g.Y0 = (minY-margin)*S + 1
	g.NX = int(((maxX+margin)*S-g.X0)/step) + 1
	g.NY = int(((maxY+margin)*S-g.Y0)/step) + 1
	return g
}

func (g *Grid) N() int { return g.NX * g.NY }

// WX / WY return scaled witness coordinates.
func (g *Grid) WX(i int) int64 { return g.X0 + int64(i)*g.Step }
func (g *Grid) WY(j int) int64 { return g.Y0 + int64(j)*g.Step }

// Bounds of path sets (unscaled). ok=false when there is no point.
func Bounds(sets ...Paths) (minX, minY, maxX, maxY int64, ok bool) {
	first := true
	for _, ps := range sets {
		for _, p := range ps {
			for _, q := range p {
				if first {
					minX, maxX, minY, maxY = q.X, q.X, q.Y, q.Y
					first = false
					continue
				}
				if q.X < minX {
					minX = q.X
				}
				if q.X > maxX {
					maxX = q.X
				}
				if q.Y < minY {
					minY = q.Y
				}
				if q.Y > maxY {
					maxY = q.Y
				}
			}
		}
	}
	return minX, minY, maxX, maxY, !first
}

// Wind adds the winding number of every closed path of ps (counter-clockwise in
// a y-up frame = +1, the orientation for which the library's area is
// positive) to w, and sets on[k] for witnesses lying exactly on an edge.
// w and on have length g.N(), row-major (j*NX+i). Returns true if any witness
// got a non-zero contribution (cheap emptiness test).
func (g *Grid) Wind(ps Paths, w []int16, on []bool, diff []int32) bool {
	nx := g.NX
	any := false
	for _, p := range ps {
		n := len(p)
		if n < 2 {
			continue
		}
		for e := 0; e < n; e++ {
			a, b := p[e], p[(e+1)%n]
			if a.Y == b.Y {
				continue
			}
			s := int16(1) // upward edge, ray to +x: +1
			if a.Y > b.Y {
				a, b = b, a
				s = -1
			}
			ax, ay := a.X*g.S, a.Y*g.S
			dx, dy := (b.X-a.X)*g.S, (b.Y-a.Y)*g.S // dy > 0
			// rows with ay < yw < by
			j0 := ceilDiv(ay+1-g.Y0, g.Step)
			if j0 < 0 {
				j0 = 0
			}
			j1 := floorDiv(ay+dy-1-g.Y0, g.Step)
			if j1 >= int64(g.NY) {
				j1 = int64(g.NY) - 1
			}
			D := g.Step * dy
			for j := j0; j <= j1; j++ {
				yw := g.Y0 + j*g.Step
				// witness i is strictly left of the edge iff i*D < R
				R := (yw-ay)*dx - (g.X0-ax)*dy
				if R < 0 {
					continue
				}
				cnt := (R + D - 1) / D // number of i>=0 with i*D < R
				row := int(j) * nx
				if R%D == 0 {
					i := R / D
					if i < int64(nx) {
						on[row+int(i)] = true
					}
				}
				if cnt <= 0 {
					continue
				}
				if cnt > int64(nx) {
					cnt = int64(nx)
				}
				any = true
				// difference array over the row
				diff[row] += int32(s)
				if int(cnt) < nx {
					diff[row+int(cnt)] -= int32(s)
				}
			}
		}
	}
	if any {
		for j := 0; j < g.NY; j++ {
			row := j * nx
			acc := int32(0)
			for i := 0; i < nx; i++ {
				acc += diff[row+i]
				diff[row+i] = 0
				w[row+i] += int16(acc)
			}
		}
	}
	return any
}

func floorDiv(a, b int64) int64 {
	q := a / b
	if (a%b != 0) && ((a < 0) != (b < 0)) {
		q--
	}
	return q
}

func ceilDiv(a, b int64) int64 {
	q := a / b
	if (a%b != 0) && ((a < 0) == (b < 0)) {
		q++
	}
	return q
}

// Fill applies a fill rule to a winding number.
func Fill(fr clipper.FillRule, w int16) bool {
	switch fr {
	case clipper.EvenOdd:
		return w&1 != 0
	case clipper.NonZero:
		return w != 0
	case clipper.Positive:
		return w > 0
	case clipper.Negative:
		return w < 0
	}
	return false
}

// Op applies a clip type to the two memberships.
func Op(ct clipper.ClipType, s, c bool) bool {
	switch ct {
	case clipper.Intersection:
		return s && c
	case clipper.Union:
		return s || c
	case clipper.Difference:
		return s && !c
	case clipper.Xor:
		return s != c
	}
	return false
}

// FarFromEdges reports whether the scaled witness (px,py) is farther than
// `units` (unscaled) from every edge of the closed paths in sets. Exact.
func (g *Grid) FarFromEdges(px, py int64, units int64, closed bool, sets ...Paths) bool {
	lim := units * g.S // scaled distance
	big := g.S != 4
	for _, ps := range sets {
		for _, p := range ps {
			n := len(p)
			if n == 0 {
				continue
			}
			last := n
			if !closed {
				last = n - 1
				if n == 1 {
					last = 1
				}
			}
			for e := 0; e < last; e++ {
				a, b := p[e], p[(e+1)%n]
				if big {
					if !farBig(px, py, a.X*g.S, a.Y*g.S, b.X*g.S, b.Y*g.S, lim) {
						return false
					}
				} else if !far64(px, py, a.X*g.S, a.Y*g.S, b.X*g.S, b.Y*g.S, lim) {
					return false
				}
			}
		}
	}
	return true
}

// far64: dist((px,py), segment a-b) > lim, all int64, exact for |coords| < 2^20.
func far64(px, py, ax, ay, bx, by, lim int64) bool {
	dx, dy := bx-ax, by-ay
	vx, vy := px-ax, py-ay
	l2 := lim * lim
	if dx == 0 && dy == 0 {
		return vx*vx+vy*vy > l2
	}
	t := vx*dx + vy*dy
	dd := dx*dx + dy*dy
	if t <= 0 {
		return vx*vx+vy*vy > l2
	}
	if t >= dd {
		ux, uy := px-bx, py-by
		return ux*ux+uy*uy > l2
	}
	cr := vx*dy - vy*dx
	// cr^2/dd > l2
	return mulGT(cr, cr, l2, dd)
}

// mulGT reports a*b > c*d for non-negative products that may exceed 63 bits.
func mulGT(a, b, c, d int64) bool {
	var x, y, u, v big.Int
	x.SetInt64(a)
	y.SetInt64(b)
	u.SetInt64(c)
	v.SetInt64(d)
	x.Mul(&x, &y)
	u.Mul(&u, &v)
	return x.Cmp(&u) > 0
}

func farBig(px, py, ax, ay, bx, by, lim int64) bool {
	B := func(v int64) *big.Int { return big.NewInt(v) }
	dx, dy := B(bx-ax), B(by-ay)
	vx, vy := B(px-ax), B(py-ay)
	l2 := new(big.Int).Mul(B(lim), B(lim))
	sq := func(x, y *big.Int) *big.Int {
		r := new(big.Int).Mul(x, x)
		return r.Add(r, new(big.Int).Mul(y, y))
	}
	if dx.Sign() == 0 && dy.Sign() == 0 {
		return sq(vx, vy).Cmp(l2) > 0
	}
	t := new(big.Int).Mul(vx, dx)
	t.Add(t, new(big.Int).Mul(vy, dy))
	dd := sq(dx, dy)
	if t.Sign() <= 0 {
		return sq(vx, vy).Cmp(l2) > 0
	}
	if t.Cmp(dd) >= 0 {
		return sq(B(px-bx), B(py-by)).Cmp(l2) > 0
	}
	cr := new(big.Int).Mul(vx, dy)
	cr.Sub(cr, new(big.Int).Mul(vy, dx))
	cr.Mul(cr, cr)
	return cr.Cmp(new(big.Int).Mul(l2, dd)) > 0
}

// WindAt returns the exact winding number of the scaled point (px,py) with
// respect to the closed paths ps, and whether the point lies on an edge. It is
// the slow, obviously-correct form used to calibrate Wind and in replay output.
func WindAt(ps Paths, S, px, py int64) (w int, on bool) {
	for _, p := range ps {
		n := len(p)
		for e := 0; e < n; e++ {
			a, b := p[e], p[(e+1)%n]
			ax, ay, bx, by := a.X*S, a.Y*S, b.X*S, b.Y*S
			// on-segment test
			cr := new(big.Int).Mul(big.NewInt(bx-ax), big.NewInt(py-ay))
			cr.Sub(cr, new(big.Int).Mul(big.NewInt(by-ay), big.NewInt(px-ax)))
			if cr.Sign() == 0 && px >= min(ax, bx) && px <= max(ax, bx) && py >= min(ay, by) && py <= max(ay, by) {
				on = true
			}
			if ay == by {
				continue
			}
			// half-open rule in y; edge crosses the ray to +x iff the point is strictly left
			if ay <= py && by > py { // upward
				if cr.Sign() > 0 {
					w++
				}
			} else if by <= py && ay > py { // downward
				if cr.Sign() < 0 {
					w--
				}
			}
		}
	}
	return w, on
}
