package oracle

import (
	"math/big"
)

// Area2 returns twice the exact signed area of a closed path in the library's
// sign convention (counter-clockwise in a y-up frame is positive).
func Area2(p Path) *big.Int {
	s := new(big.Int)
	n := len(p)
	if n < 3 {
		return s
	}
	var t, u, v big.Int
	prev := p[n-1]
	for _, q := range p {
		u.SetInt64(prev.Y)
		v.SetInt64(q.Y)
		u.Add(&u, &v)
		t.SetInt64(prev.X)
		v.SetInt64(q.X)
		t.Sub(&t, &v)
		t.Mul(&t, &u)
		s.Add(s, &t)
		prev = q
	}
	return s
}

// Area2Paths sums Area2 over a set.
func Area2Paths(ps Paths) *big.Int {
	s := new(big.Int)
	for _, p := range ps {
		s.Add(s, Area2(p))
	}
	return s
}

// Area2Small is Area2 in int64, valid for |coordinates| < 2^28 and few points.
func Area2Small(p Path) int64 {
	n := len(p)
	if n < 3 {
		return 0
	}
	var s int64
	prev := p[n-1]
	for _, q := range p {
		s += (prev.Y + q.Y) * (prev.X - q.X)
		prev = q
	}
	return s
}

// CrossSign is the sign of (b-a) x (c-b), exact.
func CrossSign(a, b, c Pt) int {
	var x, y, t big.Int
	x.SetInt64(b.X - a.X)
	t.SetInt64(c.Y - b.Y)
	x.Mul(&x, &t)
	y.SetInt64(b.Y - a.Y)
	t.SetInt64(c.X - b.X)
	y.Mul(&y, &t)
	return x.Cmp(&y)
}

// Cross64 is (b-a) x (c-b) in int64 (valid for |coordinate differences| < 2^31).
func Cross64(a, b, c Pt) int64 {
	return (b.X-a.X)*(c.Y-b.Y) - (b.Y-a.Y)*(c.X-b.X)
}

// Dot64 is (b-a).(c-b).
func Dot64(a, b, c Pt) int64 {
	return (b.X-a.X)*(c.X-b.X) + (b.Y-a.Y)*(c.Y-b.Y)
}

// OnSegment reports whether p lies on the closed segment a-b (exact for
// coordinate differences < 2^31).
func OnSegment(p, a, b Pt) bool {
	if CrossSign(a, b, p) != 0 {
		return false
	}
	return p.X >= min(a.X, b.X) && p.X <= max(a.X, b.X) && p.Y >= min(a.Y, b.Y) && p.Y <= max(a.Y, b.Y)
}

// PointInPolygonRef is the reference even-odd point-in-polygon: 0 = on the
// boundary, 1 = inside, 2 = outside (the library's enum order IsOn, IsInside,
// IsOutside). Exact for coordinate differences < 2^31.
func PointInPolygonRef(pt Pt, poly Path) int {
	n := len(poly)
	inside := false
	for i := 0; i < n; i++ {
		a, b := poly[i], poly[(i+1)%n]
		if OnSegment(pt, a, b) {
			return 0
		}
		if (a.Y > pt.Y) != (b.Y > pt.Y) {
			// crossing of the ray to +x: pt strictly left of the edge at height pt.Y
			// sign of (b-a)x(pt-a)
			s := CrossSign(a, b, pt)
			if b.Y > a.Y { // upward: left means s>0
				if s > 0 {
					inside = !inside
				}
			} else if s < 0 {
				inside = !inside
			}
		}
	}
	if inside {
		return 1
	}
	return 2
}

// SegSegIntersect reports whether closed segments a-b and c-d share a point.
func SegSegIntersect(a, b, c, d Pt) bool {
	d1 := CrossSign(c, d, a)
	d2 := CrossSign(c, d, b)
	d3 := CrossSign(a, b, c)
	d4 := CrossSign(a, b, d)
	if d1*d2 < 0 && d3*d4 < 0 {
		return true
	}
	return (d1 == 0 && OnSegment(a, c, d)) || (d2 == 0 && OnSegment(b, c, d)) ||
		(d3 == 0 && OnSegment(c, a, b)) || (d4 == 0 && OnSegment(d, a, b))
}

// IsSimple reports whether the closed polygon has no repeated vertex, no
// zero-length edge, no two non-adjacent edges touching and adjacent edges
// meeting only at their shared vertex.
func IsSimple(p Path) bool {
	n := len(p)
	if n < 3 {
		return false
	}
	for i := 0; i < n; i++ {
		a, b := p[i], p[(i+1)%n]
		if a == b {
			return false
		}
		// adjacent edge must not fold back
		c := p[(i+2)%n]
		if CrossSign(a, b, c) == 0 && Dot64(a, b, c) < 0 {
			return false
		}
		for j := i + 2; j < n; j++ {
			if i == 0 && j == n-1 {
				continue
			}
			if SegSegIntersect(a, b, p[j], p[(j+1)%n]) {
				return false
			}
		}
	}
	return Area2Small(p) != 0
}
