// Package drv is the bounded-exhaustive exploration driver: a coordinator that
// splits finite, explicitly indexed case spaces ("scopes") into shards, runs
// them on worker subprocesses against the real library, and turns the outcome
// into VIOLATION / KNOWN-FINDING lines, replay files and an evidence file.
package drv

import (
	"encoding/json"
	"fmt"
	"os"
	"runtime/debug"
	"sort"
	"sync/atomic"
	"time"
)

// Scope is one completely enumerated space: cases 0..Size-1.
type Scope struct {
	Name  string
	Level int    // iterated-bound level (informational)
	Size  uint64 // number of cases
	Chunk uint64 // shard size (0 = automatic)
	// Run executes case idx against the implementation and checks the oracle.
	Run func(c *Ctx, idx uint64)
	// Show returns a literal, human-readable rendering of case idx.
	Show func(idx uint64) any
}

// Check is the machinery deciding one property.
type Check struct {
	ID          string
	Title       string
	Rule        string   // how cases are enumerated / what counts as non-trivial
	Assumptions []string // trusted base
	// Scopes returns the scopes of a tier ("quick" or "thorough"), smallest first.
	Scopes func(tier string) []*Scope
	// Custom, when set, replaces the scope machinery (history BFS, schedule DFS).
	Custom func(env *Env) *Summary
	// RequiredCounters must be non-zero after a complete run (vacuity guards).
	RequiredCounters []string
	// Post may inspect the aggregated summary (e.g. compare shard hashes of two passes).
	Post func(sum *Summary)
}

var registry = map[string]*Check{}

func Register(c *Check) { registry[c.ID] = c }

func Lookup(id string) *Check { return registry[id] }

func IDs() []string {
	var ids []string
	for k := range registry {
		ids = append(ids, k)
	}
	sort.Strings(ids)
	return ids
}

// Violation is one failing (case, sub-configuration).
type Violation struct {
	Scope  string `json:"scope"`
	Index  uint64 `json:"index"`
	Kind   string `json:"kind"`
	Detail string `json:"detail"`
	Sub    string `json:"sub,omitempty"`
}

// Ctx accumulates what a worker observed while running cases.
type Ctx struct {
	Scope      *Scope
	idx        uint64
	Execs      uint64
	Nontrivial uint64
	Counters   map[string]uint64
	Viol       []Violation
	ViolCases  []uint64
	nViol      uint64
	sketch     *Sketch
	lastViolIx uint64
	hasViol    bool
	Verbose    bool // replay mode: keep every violation with full detail
	xh         uint64
	xhUsed     bool
}

// ShardHash folds h into an order-sensitive hash of everything the current
// shard observed; the coordinator can compare it between two passes over the
// same shard in different processes (cross-process determinism).
func (c *Ctx) ShardHash(h uint64) {
	c.xhUsed = true
	c.xh = (c.xh<<7 | c.xh>>57) ^ h*0x9e3779b97f4a7c15
}

const maxViolPerShard = 40

// Exec counts n executions of real library code whose result was compared
// with the reference model.
func (c *Ctx) Exec(n int) { c.Execs += uint64(n) }

// Nontriv marks the current case as non-trivial by the check's rule.
func (c *Ctx) Nontriv() { c.Nontrivial++ }

func (c *Ctx) Count(name string, n int) {
	if n != 0 {
		c.Counters[name] += uint64(n)
	}
}

// Output feeds a hash of an observed output into the distinct-outcome sketch.
func (c *Ctx) Output(h uint64) { c.sketch.Add(h) }

// Fail records a violation for the current case.
func (c *Ctx) Fail(kind, sub, format string, args ...any) {
	c.nViol++
	if !c.hasViol || c.lastViolIx != c.idx {
		c.hasViol = true
		c.lastViolIx = c.idx
		c.ViolCases = append(c.ViolCases, c.idx)
	}
	if len(c.Viol) < maxViolPerShard || c.Verbose {
		c.Viol = append(c.Viol, Violation{Scope: c.Scope.Name, Index: c.idx, Kind: kind, Sub: sub,
			Detail: fmt.Sprintf(format, args...)})
	}
}

// Failed reports whether the current case already has a violation.
func (c *Ctx) Failed() bool { return c.hasViol && c.lastViolIx == c.idx }

// Index returns the index of the case being run.
func (c *Ctx) Index() uint64 { return c.idx }

// shardResult is one line of worker output.
type shardResult struct {
	Scope      int               `json:"scope"`
	Lo         uint64            `json:"lo"`
	Hi         uint64            `json:"hi"`
	Execs      uint64            `json:"execs"`
	Nontrivial uint64            `json:"nontrivial"`
	Counters   map[string]uint64 `json:"counters,omitempty"`
	NViol      uint64            `json:"nviol"`
	Viol       []Violation       `json:"viol,omitempty"`
	ViolCases  []uint64          `json:"violcases,omitempty"`
	Final      bool              `json:"final,omitempty"`
	Sketch     []byte            `json:"sketch,omitempty"`
}

// Sketch is a linear-counting bitmap for the number of distinct outcomes.
type Sketch struct{ bits []uint64 }

const sketchBits = 1 << 20

func NewSketch() *Sketch { return &Sketch{bits: make([]uint64, sketchBits/64)} }

func (s *Sketch) Add(h uint64) {
	h ^= h >> 33
	h *= 0xff51afd7ed558ccd
	h ^= h >> 33
	b := h & (sketchBits - 1)
	s.bits[b>>6] |= 1 << (b & 63)
}

func (s *Sketch) Or(o *Sketch) {
	for i := range s.bits {
		s.bits[i] |= o.bits[i]
	}
}

func (s *Sketch) Bytes() []byte {
	out := make([]byte, len(s.bits)*8)
	for i, w := range s.bits {
		for k := 0; k < 8; k++ {
			out[i*8+k] = byte(w >> (8 * k))
		}
	}
	return out
}

func SketchFromBytes(b []byte) *Sketch {
	s := NewSketch()
	for i := range s.bits {
		if i*8+8 > len(b) {
			break
		}
		var w uint64
		for k := 0; k < 8; k++ {
			w |= uint64(b[i*8+k]) << (8 * k)
		}
		s.bits[i] = w
	}
	return s
}

// Ones returns the number of set bits (a lower bound on distinct outcomes).
func (s *Sketch) Ones() uint64 {
	var n uint64
	for _, w := range s.bits {
		for ; w != 0; w &= w - 1 {
			n++
		}
	}
	return n
}

// HashBytes is FNV-1a, used for output hashing.
func HashBytes(h uint64, b []byte) uint64 {
	if h == 0 {
		h = 14695981039346656037
	}
	for _, x := range b {
		h ^= uint64(x)
		h *= 1099511628211
	}
	return h
}

func HashInt(h uint64, v int64) uint64 {
	if h == 0 {
		h = 14695981039346656037
	}
	u := uint64(v)
	for k := 0; k < 8; k++ {
		h ^= (u >> (8 * k)) & 0xff
		h *= 1099511628211
	}
	return h
}

// ---- per-case execution with panic capture and watchdog -------------------

var (
	wdStart atomic.Int64 // unix nanos when the current case started (0 = idle)
	wdIdx   atomic.Uint64
	wdScope atomic.Value // string
)

// HangSeconds is the only wall-clock oracle: one case (normally microseconds
// to milliseconds) running longer than this is reported as a hang.
const HangSeconds = 60

func startWatchdog() {
	debug.SetMaxStack(256 << 20)
	go func() {
		// The limit is counted in half-second ticks during which the same case was seen running, not in wall
		// time: when the whole sandbox is frozen for a while (a snapshot being taken) the clock jumps but
		// only one tick passes, so a frozen process is not mistaken for a hanging call.
		var last int64
		ticks := 0
		for {
			time.Sleep(500 * time.Millisecond)
			st := wdStart.Load()
			if st != 0 && st == last {
				ticks++
			} else {
				ticks, last = 0, st
			}
			if st != 0 && ticks >= 2*HangSeconds {
				sc, _ := wdScope.Load().(string)
				fmt.Fprintf(os.Stderr, "\nVERIF-DEAD kind=hang scope=%s idx=%d\n", sc, wdIdx.Load())
				os.Exit(3)
			}
		}
	}()
}

// runCase runs one case, converting a panic into a violation.
func runCase(c *Ctx, idx uint64, trace bool) {
	c.idx = idx
	if trace {
		fmt.Fprintf(os.Stderr, "AT %d\n", idx)
	}
	wdIdx.Store(idx)
	wdStart.Store(time.Now().UnixNano())
	defer func() {
		wdStart.Store(0)
		if r := recover(); r != nil {
			st := debug.Stack()
			if len(st) > 1800 {
				st = st[:1800]
			}
			c.Fail("panic", "", "panic: %v\n%s", r, st)
		}
	}()
	c.Scope.Run(c, idx)
}

func mustJSON(v any) []byte {
	b, err := json.Marshal(v)
	if err != nil {
		panic(err)
	}
	return b
}

// Subcommands lets checks register extra internal sub-commands of the binary
// (e.g. the C18 schedule explorer's child processes).
var Subcommands = map[string]func(args []string) int{}

// StartWatchdog / WatchdogBegin / WatchdogEnd expose the per-call hang watchdog to custom explorers
// (history search, schedule search): a single step running longer than HangSeconds kills the process
// with a VERIF-DEAD marker on stderr.
func StartWatchdog() { startWatchdog() }

func WatchdogBegin(what string, idx uint64) {
	wdScope.Store(what)
	wdIdx.Store(idx)
	wdStart.Store(time.Now().UnixNano())
}

func WatchdogEnd() { wdStart.Store(0) }

// Alive re-arms the watchdog inside a case that makes several long library calls (the large parametric
// families: a single boolean operation on 2048-vertex star polygons takes ten seconds and more): the limit is
// per library call, not per case.
func Alive() {
	if wdStart.Load() != 0 {
		wdStart.Store(time.Now().UnixNano())
	}
}
