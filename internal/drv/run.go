package drv

import (
	"crypto/sha256"
	"encoding/hex"
	"encoding/json"
	"fmt"
	"os"
	"path/filepath"
	"runtime"
	"sort"
	"strconv"
	"strings"
	"time"
)

// Finding is an entry of /verif/known_findings.json (committed, never written
// at run time).
type Finding struct {
	ID         string              `json:"id"`
	Properties []string            `json:"properties"`
	Kind       string              `json:"kind"` // "site" | "input"
	Site       string              `json:"site,omitempty"`
	Patch      string              `json:"patch,omitempty"` // counterfactual repair of the site (unified diff, repo-relative)
	Scope      string              `json:"scope,omitempty"`
	Index      *uint64             `json:"index,omitempty"`
	Case       json.RawMessage     `json:"case,omitempty"`
	Cases      map[string][]uint64 `json:"cases,omitempty"` // kind "input": scope name -> case indices
	InputKeys  []string            `json:"input_keys,omitempty"` // kind "input": inputKey of each failing input (independent of scope names and strides)
	What       string              `json:"what"`
}

type findingsFile struct {
	Findings []Finding `json:"findings"`
	Fixed    []string  `json:"fixed"`
}

// inputKey identifies one case by what it feeds the library: a hash of the scope's rendering of the input.
func inputKey(sc *Scope, idx uint64) string {
	b, _ := json.Marshal(sc.Show(idx))
	h := sha256.Sum256(b)
	return hex.EncodeToString(h[:8])
}

func loadFindings(verifDir, prop string) ([]Finding, error) {
	b, err := os.ReadFile(filepath.Join(verifDir, "known_findings.json"))
	if err != nil {
		if os.IsNotExist(err) {
			return nil, nil
		}
		return nil, err
	}
	var ff findingsFile
	if err := json.Unmarshal(b, &ff); err != nil {
		return nil, fmt.Errorf("known_findings.json: %v", err)
	}
	var out []Finding
	for _, f := range ff.Findings {
		for _, p := range f.Properties {
			if p == prop {
				out = append(out, f)
			}
		}
	}
	return out, nil
}

// Replay is the content of a replay file.
type Replay struct {
	Property string          `json:"property"`
	Tier     string          `json:"tier"`
	Scope    string          `json:"scope"`
	Index    uint64          `json:"index"`
	Kind     string          `json:"kind"`
	Sub      string          `json:"sub,omitempty"`
	Detail   string          `json:"detail"`
	Input    any             `json:"input,omitempty"`
	Custom   json.RawMessage `json:"custom,omitempty"`
}

func envInt(name string, def int64) int64 {
	if s := os.Getenv(name); s != "" {
		if v, err := strconv.ParseInt(s, 10, 64); err == nil {
			return v
		}
	}
	return def
}

// Main runs check id at the given tier and returns the process exit code.
func Main(id, tier string) int {
	chk := Lookup(id)
	if chk == nil {
		fmt.Fprintf(os.Stderr, "unknown check %q (have %v)\n", id, IDs())
		return 2
	}
	exe, _ := os.Executable()
	verifDir := os.Getenv("VERIF_DIR")
	if verifDir == "" {
		verifDir = "/verif"
	}
	defBudget := int64(600)
	if tier == "thorough" {
		defBudget = 3 * 3600
	}
	env := &Env{ID: id, Tier: tier, Seed: envInt("VERIF_SEED", 0), Workers: int(envInt("VERIF_WORKERS", int64(runtime.NumCPU()))),
		Budget: time.Duration(envInt("VERIF_BUDGET_S", defBudget)) * time.Second, Exe: exe, VerifDir: verifDir, Start: time.Now(), Log: os.Stdout}

	var sum *Summary
	var scopes []*Scope
	if chk.Custom != nil {
		sum = chk.Custom(env)
	} else {
		scopes = chk.Scopes(tier)
		var jobsFilter []job
		if f := os.Getenv("VERIF_SCOPES"); f != "" {
			// development aid: explore only the scopes whose name contains the filter (recorded as a cap)
			for si, sc := range scopes {
				match := false
				for _, part := range strings.Split(f, ",") {
					if part != "" && strings.Contains(sc.Name, part) {
						match = true
					}
				}
				if match {
					chunk := max(sc.Size/uint64(env.Workers*24), 1)
					for lo := uint64(0); lo < sc.Size; lo += chunk {
						jobsFilter = append(jobsFilter, job{scope: si, lo: lo, hi: min(lo+chunk, sc.Size)})
					}
				}
			}
		}
		if os.Getenv("VERIF_SCOPES") != "" && jobsFilter == nil {
			jobsFilter = []job{} // a filter that matches nothing explores nothing
		}
		sum = RunScopes(env, exe, scopes, jobsFilter)
		if jobsFilter != nil {
			sum.Caps = append(sum.Caps, "VERIF_SCOPES filter active: only matching scopes explored")
		}
		for _, sc := range scopes {
			if sc.Show != nil && sc.Size > 0 && len(sum.Samples) < 6 {
				sum.Samples = append(sum.Samples, map[string]any{"scope": sc.Name, "index": 0, "case": sc.Show(0)})
				if sc.Size > 1 {
					ix := sc.Size * 2 / 3
					sum.Samples = append(sum.Samples, map[string]any{"scope": sc.Name, "index": ix, "case": sc.Show(ix)})
				}
			}
		}
	}

	if chk.Post != nil {
		chk.Post(sum)
	}
	for k := range sum.Counters {
		if strings.HasPrefix(k, "xhash|") {
			delete(sum.Counters, k)
		}
	}
	exit := 0
	var lines []string
	nViolReported := 0

	// vacuity guards
	if sum.Exhaustive {
		for _, k := range chk.RequiredCounters {
			if sum.Counters[k] == 0 {
				sum.Internal = append(sum.Internal, "vacuity guard: counter "+k+" is 0 after a complete run")
			}
		}
	}

	// ---- attribution of violations to known findings -------------------------
	findings, ferr := loadFindings(verifDir, id)
	if ferr != nil {
		sum.Internal = append(sum.Internal, ferr.Error())
	}
	known := map[string]uint64{} // finding id -> number of cases attributed
	remaining := map[string][]uint64{}
	total := 0
	for k, v := range sum.ViolCases {
		remaining[k] = append([]uint64(nil), v...)
		total += len(v)
	}
	if p := os.Getenv("VERIF_DUMP_KEYS"); p != "" && chk.Custom == nil {
		// development aid for writing a known-findings entry: every violating case with its input key
		dump := map[string][][2]any{}
		for name, list := range sum.ViolCases {
			if _, sc := scopeByName(scopes, name); sc != nil && sc.Show != nil {
				for _, ix := range list {
					dump[name] = append(dump[name], [2]any{ix, inputKey(sc, ix)})
				}
			}
		}
		b, _ := json.Marshal(dump)
		os.MkdirAll(filepath.Dir(p), 0o755)
		os.WriteFile(p, b, 0o644)
	}
	if total > 0 && chk.Custom == nil {
		for _, f := range findings {
			if f.Kind != "input" {
				continue
			}
			if len(f.InputKeys) > 0 {
				want := map[string]bool{}
				for _, k := range f.InputKeys {
					want[k] = true
				}
				for name, list := range remaining {
					_, sc := scopeByName(scopes, name)
					if sc == nil || sc.Show == nil {
						continue
					}
					var keep []uint64
					for _, ix := range list {
						if want[inputKey(sc, ix)] {
							known[f.ID]++
						} else {
							keep = append(keep, ix)
						}
					}
					remaining[name] = keep
				}
			}
			for scope, idxs := range f.Cases {
				want := map[uint64]bool{}
				for _, ix := range idxs {
					want[ix] = true
				}
				var keep []uint64
				for _, ix := range remaining[scope] {
					if want[ix] {
						known[f.ID]++
					} else {
						keep = append(keep, ix)
					}
				}
				remaining[scope] = keep
			}
			if f.Index == nil {
				continue
			}
			list := remaining[f.Scope]
			for i, ix := range list {
				if ix == *f.Index {
					remaining[f.Scope] = append(append([]uint64(nil), list[:i]...), list[i+1:]...)
					known[f.ID]++
					break
				}
			}
		}
		for _, f := range findings {
			if f.Kind != "site" || countCases(remaining) == 0 {
				continue
			}
			cfExe, err := buildCounterfactual(env, []Finding{f})
			if err != nil {
				fmt.Fprintf(env.Log, "note: counterfactual build for %s unavailable (%v); its violations stay unattributed\n", f.ID, err)
				continue
			}
			still, internal := recheck(env, cfExe, scopes, remaining)
			sum.Internal = append(sum.Internal, internal...)
			for name, list := range remaining {
				var keep []uint64
				for _, ix := range list {
					if still[name][ix] {
						keep = append(keep, ix)
					} else {
						known[f.ID]++
					}
				}
				remaining[name] = keep
			}
			os.Remove(cfExe)
		}
	}
	// cases that need several known findings repaired at once
	if total > 0 && chk.Custom == nil && countCases(remaining) > 0 {
		var sites []Finding
		for _, f := range findings {
			if f.Kind == "site" {
				sites = append(sites, f)
			}
		}
		if len(sites) >= 2 {
			if cfExe, err := buildCounterfactual(env, sites); err == nil {
				still, internal := recheck(env, cfExe, scopes, remaining)
				sum.Internal = append(sum.Internal, internal...)
				n := uint64(0)
				for name, list := range remaining {
					var keep []uint64
					for _, ix := range list {
						if still[name][ix] {
							keep = append(keep, ix)
						} else {
							n++
						}
					}
					remaining[name] = keep
				}
				os.Remove(cfExe)
				if n > 0 {
					ids := ""
					for _, f := range sites {
						ids += f.ID + " "
					}
					known["combination"] = n
					lines = append(lines, fmt.Sprintf("KNOWN-FINDING: property=%s cases that fail through several listed findings at once and pass only with all of them repaired together [%s] cases=%d", id, strings.TrimSpace(ids), n))
				}
			} else {
				fmt.Fprintf(env.Log, "note: combined counterfactual build unavailable (%v)\n", err)
			}
		}
	}
	for _, f := range findings {
		if n := known[f.ID]; n > 0 {
			lines = append(lines, fmt.Sprintf("KNOWN-FINDING: property=%s %s [%s %s] cases=%d", id, f.What, f.ID, f.Site, n))
		}
	}

	// ---- report what is left --------------------------------------------------
	outDir := os.Getenv("VERIF_OUT")
	if outDir == "" {
		outDir = verifDir
	}
	os.MkdirAll(filepath.Join(outDir, "replay"), 0o755)
	if chk.Custom != nil {
		for i, v := range sum.Viol {
			if i >= 20 {
				break
			}
			path := filepath.Join(outDir, "replay", fmt.Sprintf("%s-%s-%d.json", id, tier, i))
			rp := Replay{Property: id, Tier: tier, Scope: v.Scope, Index: v.Index, Kind: v.Kind, Sub: v.Sub, Detail: v.Detail}
			if raw, ok := sum.Extra["replay:"+strconv.Itoa(i)]; ok {
				rp.Custom = mustJSON(raw)
			}
			os.WriteFile(path, mustJSONIndent(rp), 0o644)
			lines = append(lines, fmt.Sprintf("VIOLATION property=%s replay=%s", id, path), "  "+firstLine(v.Kind+": "+v.Detail))
			nViolReported++
			exit = 1
		}
		for k := range sum.Extra {
			if strings.HasPrefix(k, "replay:") {
				delete(sum.Extra, k)
			}
		}
	} else if countCases(remaining) > 0 {
		// worker deaths (hang / crash) were located by a dedicated re-run already and cost a
		// watchdog period each: keep their records, do not execute them again
		deathRec := map[string]Violation{}
		for _, v := range sum.Viol {
			if v.Kind == "hang" || v.Kind == "crash" || v.Kind == "oom" {
				deathRec[fmt.Sprintf("%s|%d", v.Scope, v.Index)] = v
			}
		}
		var deaths []Violation
		for name, list := range remaining {
			var keep []uint64
			for _, ix := range list {
				if v, ok := deathRec[fmt.Sprintf("%s|%d", name, ix)]; ok {
					deaths = append(deaths, v)
				} else {
					keep = append(keep, ix)
				}
			}
			remaining[name] = keep
		}
		// fetch full records for the remaining cases from the real build
		var jobs []job
		for name, list := range remaining {
			si, _ := scopeByName(scopes, name)
			if len(list) > 3000 {
				list = list[:3000]
			}
			for lo := 0; lo < len(list); lo += 500 {
				hi := min(lo+500, len(list))
				jobs = append(jobs, job{scope: si, list: list[lo:hi]})
			}
		}
		e2 := *env
		e2.Start = time.Now()
		e2.Budget = 24 * time.Hour
		rs := &Summary{}
		if len(jobs) > 0 {
			rs = RunScopes(&e2, exe, scopes, jobs)
		}
		rs.Viol = append(rs.Viol, deaths...)
		type gkey struct{ scope, kind string }
		groups := map[gkey]Violation{}
		counts := map[gkey]int{}
		var order []gkey
		for _, v := range rs.Viol {
			k := gkey{v.Scope, v.Kind}
			counts[k]++
			if old, ok := groups[k]; !ok {
				groups[k] = v
				order = append(order, k)
			} else if v.Index < old.Index {
				groups[k] = v
			}
		}
		sort.SliceStable(order, func(i, j int) bool {
			a, b := scopeOrder(scopes, order[i].scope), scopeOrder(scopes, order[j].scope)
			if a != b {
				return a < b
			}
			return order[i].kind < order[j].kind
		})
		if len(rs.Viol) == 0 {
			sum.Internal = append(sum.Internal, fmt.Sprintf("%d violating cases did not reproduce when re-run (non-determinism in harness?)", countCases(remaining)))
		}
		isDeath := func(k string) bool { return k == "hang" || k == "crash" || k == "oom" }
		for gi, k := range order {
			if gi >= 20 {
				break
			}
			v := groups[k]
			_, sc := scopeByName(scopes, v.Scope)
			path := filepath.Join(outDir, "replay", fmt.Sprintf("%s-%s-%d.json", id, tier, gi))
			rp := Replay{Property: id, Tier: tier, Scope: v.Scope, Index: v.Index, Kind: v.Kind, Sub: v.Sub, Detail: v.Detail}
			if sc != nil && sc.Show != nil {
				rp.Input = sc.Show(v.Index)
			}
			os.WriteFile(path, mustJSONIndent(rp), 0o644)
			// a violation is believed only if it fails 5 times out of 5 in fresh processes
			fails := 0
			if isDeath(v.Kind) {
				fails = 5 // reproduced in a traced re-run already; another 5 watchdog periods would add nothing
			}
			for k := 0; k < 5 && !isDeath(v.Kind); k++ {
				_, err := runCmd(verifDir, nil, exe, "replay", path)
				if err != nil {
					fails++
				}
			}
			if fails != 5 {
				sum.Internal = append(sum.Internal, fmt.Sprintf("replay %s failed %d/5 times: harness non-determinism", path, fails))
				continue
			}
			lines = append(lines, fmt.Sprintf("VIOLATION property=%s replay=%s", id, path),
				fmt.Sprintf("  scope=%s index=%d kind=%s %s (cases of this kind in scope: %d) %s", v.Scope, v.Index, v.Kind, v.Sub, counts[k], firstLine(v.Detail)))
			nViolReported++
			exit = 1
		}
	}

	for i, v := range sum.PostViol {
		if i >= 5 {
			break
		}
		path := filepath.Join(outDir, "replay", fmt.Sprintf("%s-%s-post%d.json", id, tier, i))
		os.WriteFile(path, mustJSONIndent(Replay{Property: id, Tier: tier, Scope: v.Scope, Index: v.Index, Kind: v.Kind, Detail: v.Detail}), 0o644)
		lines = append(lines, fmt.Sprintf("VIOLATION property=%s replay=%s", id, path), "  "+firstLine(v.Kind+": "+v.Detail))
		nViolReported++
		exit = 1
	}
	if len(sum.Internal) > 0 && exit == 0 {
		exit = 2
	}
	for _, l := range lines {
		fmt.Fprintln(env.Log, l)
	}
	for _, l := range sum.Internal {
		fmt.Fprintln(env.Log, "INTERNAL-ERROR:", l)
	}

	// ---- evidence ---------------------------------------------------------------
	wall := time.Since(env.Start).Seconds()
	knownTotal := uint64(0)
	knownList := []string{}
	for k, n := range known {
		knownTotal += n
		knownList = append(knownList, fmt.Sprintf("%s:%d", k, n))
	}
	sort.Strings(knownList)
	cov := map[string]any{
		"states":                        max(sum.States, 1),
		"transitions":                   max(sum.Transitions, 1),
		"traces_validated_against_impl": sum.Validated,
		"evaluations":                   max(sum.Evaluations, 1),
		"distinct_nontrivial":           sum.Nontrivial,
		"distinct_outcomes_lower_bound": sum.Distinct,
		"rule":                          chk.Rule,
		"samples":                       sum.Samples,
		"exhaustive":                    sum.Exhaustive,
		"scopes":                        sum.Scopes,
		"counters":                      sum.Counters,
		"caps_hit":                      sum.Caps,
		"violating_cases_total":         total,
		"violating_case_indices":        capIndices(sum.ViolCases, 300),
		"violating_cases_known_finding": knownTotal,
		"known_findings_matched":        knownList,
		"workers":                       env.Workers,
		"explanation":                   "states = distinct canonical cases/abstract states enumerated; transitions = executions of real library code; every execution's outcome was compared with the reference model (exploration runs on the implementation itself, so traces_validated_against_impl = transitions).",
	}
	for k, v := range sum.Extra {
		cov[k] = v
	}
	if len(sum.Samples) == 0 {
		cov["samples"] = []any{"(no cases)"}
	}
	ev := map[string]any{
		"property_id": id,
		"tier":        tier,
		"seed":        env.Seed,
		"level":       "model_checking",
		"coverage":    cov,
		"assumptions": chk.Assumptions,
		"wall_s":      wall,
		"violations":  nViolReported,
	}
	os.MkdirAll(filepath.Join(outDir, "evidence"), 0o755)
	if err := os.WriteFile(filepath.Join(outDir, "evidence", id+".json"), mustJSONIndent(ev), 0o644); err != nil {
		fmt.Fprintln(env.Log, "INTERNAL-ERROR: cannot write evidence:", err)
		if exit == 0 {
			exit = 2
		}
	}
	fmt.Fprintf(env.Log, "%s %s: states=%d transitions=%d nontrivial=%d distinct_outcomes>=%d violating_cases=%d (known=%d) exhaustive=%v wall=%.1fs exit=%d\n",
		id, tier, sum.States, sum.Transitions, sum.Nontrivial, sum.Distinct, total, knownTotal, sum.Exhaustive, wall, exit)
	for _, s := range sum.Scopes {
		fmt.Fprintf(env.Log, "  scope %-34s level=%d size=%d done=%d execs=%d nontrivial=%d violations=%d\n", s.Name, s.Level, s.Size, s.Done, s.Execs, s.Nontrivial, s.Violations)
	}
	if len(sum.Counters) > 0 {
		var ks []string
		for k := range sum.Counters {
			ks = append(ks, k)
		}
		sort.Strings(ks)
		var sb strings.Builder
		for _, k := range ks {
			fmt.Fprintf(&sb, " %s=%d", k, sum.Counters[k])
		}
		fmt.Fprintf(env.Log, "  counters:%s\n", sb.String())
	}
	return exit
}

func capIndices(m map[string][]uint64, n int) map[string][]uint64 {
	out := map[string][]uint64{}
	for k, v := range m {
		if len(v) > n {
			v = v[:n]
		}
		out[k] = v
	}
	return out
}

func countCases(m map[string][]uint64) int {
	n := 0
	for _, v := range m {
		n += len(v)
	}
	return n
}

func firstLine(s string) string {
	if i := strings.IndexByte(s, '\n'); i >= 0 {
		s = s[:i]
	}
	if len(s) > 300 {
		s = s[:300]
	}
	return s
}

func mustJSONIndent(v any) []byte {
	b, err := json.MarshalIndent(v, "", " ")
	if err != nil {
		panic(err)
	}
	return append(b, '\n')
}

// ReplayMain re-executes the single case stored in a replay file, without the
// explorer, and prints the oracle's explanation. Exit 1 if it violates.
func ReplayMain(path string) int {
	b, err := os.ReadFile(path)
	if err != nil {
		fmt.Fprintln(os.Stderr, err)
		return 2
	}
	var rp Replay
	if err := json.Unmarshal(b, &rp); err != nil {
		fmt.Fprintln(os.Stderr, err)
		return 2
	}
	chk := Lookup(rp.Property)
	if chk == nil {
		fmt.Fprintln(os.Stderr, "unknown property", rp.Property)
		return 2
	}
	if chk.Custom != nil {
		if customReplay[rp.Property] == nil {
			fmt.Fprintln(os.Stderr, "no custom replay for", rp.Property)
			return 2
		}
		return customReplay[rp.Property](rp)
	}
	startWatchdog()
	viol, sc, err := ReplayCaseTier(chk, rp.Tier, rp.Scope, rp.Index)
	if err != nil {
		fmt.Fprintln(os.Stderr, err)
		return 2
	}
	if sc.Show != nil {
		fmt.Printf("case %s #%d: %s\n", rp.Scope, rp.Index, mustJSON(sc.Show(rp.Index)))
	}
	if len(viol) == 0 {
		fmt.Println("no violation on this tree")
		return 0
	}
	for _, v := range viol {
		fmt.Printf("VIOLATION property=%s replay=%s\n  kind=%s %s\n  %s\n", rp.Property, path, v.Kind, v.Sub, v.Detail)
	}
	return 1
}

var customReplay = map[string]func(Replay) int{}

func RegisterCustomReplay(id string, f func(Replay) int) { customReplay[id] = f }

// buildCounterfactual builds this binary against /repo's current tree with the
// finding's repair patch applied through -overlay (the repository itself is not
// touched).
func buildCounterfactual(env *Env, fs []Finding) (string, error) {
	work := filepath.Join(env.VerifDir, ".work", fmt.Sprintf("cf-%d-%s", os.Getpid(), fs[0].ID))
	os.RemoveAll(work)
	if err := os.MkdirAll(work, 0o755); err != nil {
		return "", err
	}
	defer os.RemoveAll(work)
	repo := os.Getenv("VERIF_REPO")
	if repo == "" {
		repo = "/repo"
	}
	overlay := map[string]string{}
	base := map[string]string{} // development overlay (tools/seedtest.sh): the tree being checked
	if ovf := os.Getenv("VERIF_OVERLAY"); ovf != "" {
		var o struct{ Replace map[string]string }
		if b, err := os.ReadFile(ovf); err == nil && json.Unmarshal(b, &o) == nil {
			base = o.Replace
		}
	}
	for _, f := range fs {
		patch := filepath.Join(env.VerifDir, f.Patch)
		pb, err := os.ReadFile(patch)
		if err != nil {
			return "", err
		}
		for _, ln := range strings.Split(string(pb), "\n") {
			if strings.HasPrefix(ln, "+++ b/") {
				name := strings.TrimSpace(strings.TrimPrefix(ln, "+++ b/"))
				if _, ok := overlay[filepath.Join(repo, name)]; ok {
					continue
				}
				srcPath := filepath.Join(repo, name)
				if alt, ok := base[srcPath]; ok {
					srcPath = alt
				}
				src, err := os.ReadFile(srcPath)
				if err != nil {
					return "", err
				}
				dst := filepath.Join(work, name)
				if err := os.WriteFile(dst, src, 0o644); err != nil {
					return "", err
				}
				overlay[filepath.Join(repo, name)] = dst
			}
		}
		if out, err := runCmd(work, nil, "patch", "-p1", "--no-backup-if-mismatch", "-i", patch); err != nil {
			return "", fmt.Errorf("patch %s does not apply to the current tree: %s", f.Patch, firstLine(out))
		}
	}
	for k, v := range base {
		if _, ok := overlay[k]; !ok {
			overlay[k] = v
		}
	}
	ov := filepath.Join(work, "overlay.json")
	os.WriteFile(ov, mustJSON(map[string]any{"Replace": overlay}), 0o644)
	out := filepath.Join(env.VerifDir, ".work", fmt.Sprintf("vcheck-cf-%d-%s", os.Getpid(), fs[0].ID))
	goBin := os.Getenv("VERIF_GO")
	if goBin == "" {
		goBin = "go1.26"
	}
	if o, err := runCmd(env.VerifDir, []string{"GOFLAGS=-mod=mod", "GOPROXY=off", "GOSUMDB=off", "GOTOOLCHAIN=local"},
		goBin, "build", "-tags", "verif", "-overlay", ov, "-o", out, "./cmd/vcheck"); err != nil {
		return "", fmt.Errorf("counterfactual build failed: %s", firstLine(o))
	}
	return out, nil
}
