package drv

import (
	"bufio"
	"bytes"
	"encoding/json"
	"fmt"
	"io"
	"os"
	"os/exec"
	"regexp"
	"sort"
	"strconv"
	"strings"
	"sync"
	"time"
)

// Env is what a run knows about its surroundings.
type Env struct {
	ID       string
	Tier     string
	Seed     int64
	Workers  int
	Budget   time.Duration // internal deadline: exceeding it ends the run with exhaustive=false
	Exe      string        // this binary (built from /repo's current tree)
	VerifDir string
	Start    time.Time
	Log      io.Writer
}

type job struct {
	scope int
	lo    uint64
	hi    uint64
	list  []uint64
}

func (j job) line() string {
	if j.list != nil {
		var sb strings.Builder
		fmt.Fprintf(&sb, "%d list", j.scope)
		for _, ix := range j.list {
			sb.WriteByte(' ')
			sb.WriteString(strconv.FormatUint(ix, 10))
		}
		sb.WriteByte('\n')
		return sb.String()
	}
	return fmt.Sprintf("%d %d %d\n", j.scope, j.lo, j.hi)
}

func (j job) cases() uint64 {
	if j.list != nil {
		return uint64(len(j.list))
	}
	return j.hi - j.lo
}

// ScopeReport is the per-scope completion table entry of the evidence.
type ScopeReport struct {
	Name       string `json:"name"`
	Level      int    `json:"level"`
	Size       uint64 `json:"size"`
	Done       uint64 `json:"cases_done"`
	Execs      uint64 `json:"executions"`
	Nontrivial uint64 `json:"nontrivial"`
	Violations uint64 `json:"violations"`
	Complete   bool   `json:"complete"`
}

// Summary is what a run (scope-based or custom) reports.
type Summary struct {
	States      uint64
	Transitions uint64
	Validated   uint64
	Evaluations uint64
	Nontrivial  uint64
	Counters    map[string]uint64
	Distinct    uint64
	Samples     []any
	Exhaustive  bool
	Scopes      []ScopeReport
	Viol        []Violation         // retained violation records
	ViolCount   uint64              // all violations (case x sub-configuration)
	ViolCases   map[string][]uint64 // scope name -> all violating case indices
	Extra       map[string]any
	PostViol    []Violation // violations found by Check.Post (reported as they are)
	Internal    []string    // internal errors (exit 2)
	Caps        []string
}

type agg struct {
	mu            sync.Mutex
	sum           *Summary
	sketch        *Sketch
	scopes        []*Scope
	pending       []job
	inflight      int
	deaths        int
	deathsByScope map[int]int
	stop          bool
	cond          *sync.Cond
}

const maxDeaths = 3

var deadRe = regexp.MustCompile(`VERIF-DEAD kind=(\w+) scope=(.*) idx=(\d+)`)
var atRe = regexp.MustCompile(`(?m)^AT (\d+)$`)

type tailBuf struct {
	mu sync.Mutex
	b  []byte
}

func (t *tailBuf) Write(p []byte) (int, error) {
	t.mu.Lock()
	t.b = append(t.b, p...)
	if len(t.b) > 1<<16 {
		t.b = t.b[len(t.b)-(1<<15):]
	}
	t.mu.Unlock()
	return len(p), nil
}

func (t *tailBuf) String() string {
	t.mu.Lock()
	defer t.mu.Unlock()
	return string(t.b)
}

type proc struct {
	cmd    *exec.Cmd
	stdin  io.WriteCloser
	out    *bufio.Reader
	stderr *tailBuf
}

func startProc(exe, id, tier string, trace bool) (*proc, error) {
	cmd := exec.Command(exe, "worker", id, tier)
	cmd.Env = append(os.Environ(), "GOMAXPROCS=2", "GOGC=200")
	if trace {
		cmd.Env = append(cmd.Env, "VERIF_TRACE=1")
	}
	in, err := cmd.StdinPipe()
	if err != nil {
		return nil, err
	}
	op, err := cmd.StdoutPipe()
	if err != nil {
		return nil, err
	}
	tb := &tailBuf{}
	cmd.Stderr = tb
	if err := cmd.Start(); err != nil {
		return nil, err
	}
	return &proc{cmd: cmd, stdin: in, out: bufio.NewReaderSize(op, 1<<20), stderr: tb}, nil
}

func (p *proc) do(j job) (*shardResult, error) {
	if _, err := io.WriteString(p.stdin, j.line()); err != nil {
		return nil, err
	}
	line, err := p.out.ReadBytes('\n')
	if err != nil {
		return nil, err
	}
	var r shardResult
	if err := json.Unmarshal(line, &r); err != nil {
		return nil, fmt.Errorf("bad worker line: %v: %.200s", err, line)
	}
	return &r, nil
}

func (p *proc) finish() *Sketch {
	p.stdin.Close()
	var sk *Sketch
	for {
		line, err := p.out.ReadBytes('\n')
		if len(line) > 0 {
			var r shardResult
			if json.Unmarshal(line, &r) == nil && r.Final {
				sk = SketchFromBytes(r.Sketch)
			}
		}
		if err != nil {
			break
		}
	}
	p.cmd.Wait()
	return sk
}

func (p *proc) kill() {
	p.stdin.Close()
	p.cmd.Process.Kill()
	p.cmd.Wait()
}

// locateDeath finds the case at which a worker died while running j. It first
// looks for the watchdog marker, otherwise re-runs j in tracing mode.
func locateDeath(env *Env, scopes []*Scope, j job, stderrTail string) (idx uint64, kind, detail string, ok bool) {
	if m := deadRe.FindStringSubmatch(stderrTail); m != nil {
		ix, _ := strconv.ParseUint(m[3], 10, 64)
		// a watchdog firing is believed only if the same case hangs again in a fresh worker
		if p, err := startProc(env.Exe, env.ID, env.Tier, true); err == nil {
			_, err = p.do(job{scope: j.scope, lo: ix, hi: ix + 1})
			p.kill()
			if err == nil {
				return ix, "spurious-watchdog", "", false
			}
		}
		return ix, m[1], "worker watchdog: single library call exceeded " + strconv.Itoa(HangSeconds) + " s", true
	}
	p, err := startProc(env.Exe, env.ID, env.Tier, true)
	if err != nil {
		return 0, "", "", false
	}
	_, err = p.do(j)
	tail := p.stderr.String()
	p.kill()
	if err == nil {
		return 0, "", "", false // did not reproduce
	}
	if m := deadRe.FindStringSubmatch(tail); m != nil {
		ix, _ := strconv.ParseUint(m[3], 10, 64)
		return ix, m[1], "worker watchdog: single library call exceeded " + strconv.Itoa(HangSeconds) + " s", true
	}
	all := atRe.FindAllStringSubmatch(tail, -1)
	if len(all) == 0 {
		return 0, "", "", false
	}
	ix, _ := strconv.ParseUint(all[len(all)-1][1], 10, 64)
	// keep the fatal message: what follows the last AT line
	pos := strings.LastIndex(tail, "AT "+all[len(all)-1][1])
	msg := tail[pos:]
	if len(msg) > 1500 {
		msg = msg[:1500]
	}
	return ix, "crash", "worker process died (fatal runtime error / os-level kill):\n" + msg, true
}

func (a *agg) take(deadline time.Time) (job, bool) {
	a.mu.Lock()
	defer a.mu.Unlock()
	for {
		if !a.stop && time.Now().After(deadline) {
			a.stop = true
			if len(a.pending) > 0 {
				a.sum.Exhaustive = false
				a.sum.Caps = append(a.sum.Caps, fmt.Sprintf("internal time budget reached with %d shards not started", len(a.pending)))
			}
			a.pending = nil
			a.cond.Broadcast()
		}
		if len(a.pending) > 0 {
			j := a.pending[0]
			a.pending = a.pending[1:]
			a.inflight++
			return j, true
		}
		if a.inflight == 0 {
			a.cond.Broadcast()
			return job{}, false
		}
		a.cond.Wait()
	}
}

func (a *agg) done(j job, r *shardResult, requeue []job) {
	a.mu.Lock()
	defer a.mu.Unlock()
	a.inflight--
	if !a.stop {
		a.pending = append(requeue, a.pending...)
	} else if len(requeue) > 0 {
		a.sum.Exhaustive = false
	}
	if r != nil {
		sr := &a.sum.Scopes[j.scope]
		sr.Done += j.cases()
		sr.Execs += r.Execs
		sr.Nontrivial += r.Nontrivial
		sr.Violations += r.NViol
		a.sum.Transitions += r.Execs
		a.sum.Nontrivial += r.Nontrivial
		a.sum.States += j.cases()
		for k, v := range r.Counters {
			a.sum.Counters[k] += v
		}
		a.sum.ViolCount += r.NViol
		if len(a.sum.Viol) < 4000 {
			a.sum.Viol = append(a.sum.Viol, r.Viol...)
		}
		if len(r.ViolCases) > 0 {
			n := a.scopes[j.scope].Name
			a.sum.ViolCases[n] = append(a.sum.ViolCases[n], r.ViolCases...)
		}
	}
	a.cond.Broadcast()
}

// RunScopes explores the given jobs (or, when jobs is nil, every scope
// completely) on worker subprocesses of exe.
func RunScopes(env *Env, exe string, scopes []*Scope, jobs []job) *Summary {
	sum := &Summary{Counters: map[string]uint64{}, ViolCases: map[string][]uint64{}, Exhaustive: true, Extra: map[string]any{}}
	for _, sc := range scopes {
		sum.Scopes = append(sum.Scopes, ScopeReport{Name: sc.Name, Level: sc.Level, Size: sc.Size})
	}
	if jobs == nil {
		for si, sc := range scopes {
			chunk := sc.Chunk
			if chunk == 0 {
				chunk = sc.Size / uint64(env.Workers*24)
				if chunk < 1 {
					chunk = 1
				}
				if chunk > 1<<18 {
					chunk = 1 << 18
				}
			}
			var js []job
			for lo := uint64(0); lo < sc.Size; lo += chunk {
				hi := lo + chunk
				if hi > sc.Size {
					hi = sc.Size
				}
				js = append(js, job{scope: si, lo: lo, hi: hi})
			}
			if n := len(js); n > 1 && env.Seed != 0 { // the seed only rotates shard order
				r := int(uint64(env.Seed) % uint64(n))
				js = append(js[r:], js[:r]...)
			}
			jobs = append(jobs, js...)
		}
	}
	a := &agg{sum: sum, sketch: NewSketch(), scopes: scopes, pending: jobs}
	a.cond = sync.NewCond(&a.mu)
	deadline := env.Start.Add(env.Budget)
	stopProgress := make(chan struct{})
	if env.Tier == "thorough" || os.Getenv("VERIF_PROGRESS") != "" {
		go func() {
			t := time.NewTicker(120 * time.Second)
			defer t.Stop()
			for {
				select {
				case <-stopProgress:
					return
				case <-t.C:
					a.mu.Lock()
					cur := ""
					for i := range sum.Scopes {
						if sum.Scopes[i].Done > 0 && sum.Scopes[i].Done < sum.Scopes[i].Size {
							cur += fmt.Sprintf(" [%s %d/%d viol=%d]", sum.Scopes[i].Name, sum.Scopes[i].Done, sum.Scopes[i].Size, sum.Scopes[i].Violations)
						}
					}
					fmt.Fprintf(os.Stderr, "progress %.0fs: transitions=%d violations=%d pending_shards=%d%s\n", time.Since(env.Start).Seconds(), sum.Transitions, sum.ViolCount, len(a.pending), cur)
					a.mu.Unlock()
				}
			}
		}()
	}
	defer close(stopProgress)
	var wg sync.WaitGroup
	nw := env.Workers
	if nw > len(jobs) {
		nw = len(jobs)
	}
	if nw < 1 {
		nw = 1
	}
	for w := 0; w < nw; w++ {
		wg.Add(1)
		go func() {
			defer wg.Done()
			var p *proc
			for {
				j, ok := a.take(deadline)
				if !ok {
					break
				}
				if p == nil {
					var err error
					p, err = startProc(exe, env.ID, env.Tier, false)
					if err != nil {
						a.mu.Lock()
						sum.Internal = append(sum.Internal, "cannot start worker: "+err.Error())
						a.mu.Unlock()
						a.done(j, nil, nil)
						return
					}
				}
				r, err := p.do(j)
				if err == nil {
					a.done(j, r, nil)
					continue
				}
				// the worker died on this job
				tail := p.stderr.String()
				p.kill()
				p = nil
				ix, kind, detail, found := locateDeath(env, scopes, j, tail)
				if !found && kind == "spurious-watchdog" {
					// the case runs to completion when repeated: the process had been frozen, not the call
					a.mu.Lock()
					sum.Caps = append(sum.Caps, fmt.Sprintf("watchdog fired on %s case %d but the case completes when repeated (process frozen?): shard re-run", scopes[j.scope].Name, ix))
					a.mu.Unlock()
					r2, err2 := func() (*shardResult, error) {
						p2, e := startProc(exe, env.ID, env.Tier, false)
						if e != nil {
							return nil, e
						}
						defer p2.kill()
						return p2.do(j)
					}()
					if err2 == nil {
						a.done(j, r2, nil)
						continue
					}
				}
				if !found {
					a.mu.Lock()
					sum.Internal = append(sum.Internal, fmt.Sprintf("worker died on %s [%d,%d) and the death did not reproduce: %v; stderr: %.400s", scopes[j.scope].Name, j.lo, j.hi, err, tail))
					a.mu.Unlock()
					a.done(j, nil, nil)
					continue
				}
				// account for the dead case and requeue the rest of the shard
				var before, after job
				var requeue []job
				if j.list != nil {
					pos := 0
					for k, v := range j.list {
						if v == ix {
							pos = k
						}
					}
					before = job{scope: j.scope, list: j.list[:pos]}
					after = job{scope: j.scope, list: j.list[pos+1:]}
					if len(before.list) > 0 {
						requeue = append(requeue, before)
					}
					if len(after.list) > 0 {
						requeue = append(requeue, after)
					}
				} else {
					if ix > j.lo {
						requeue = append(requeue, job{scope: j.scope, lo: j.lo, hi: ix})
					}
					if ix+1 < j.hi {
						requeue = append(requeue, job{scope: j.scope, lo: ix + 1, hi: j.hi})
					}
				}
				a.mu.Lock()
				a.deaths++
				if a.deathsByScope == nil {
					a.deathsByScope = map[int]int{}
				}
				a.deathsByScope[j.scope]++
				if a.deathsByScope[j.scope] == maxDeaths {
					// every death costs a watchdog period and this scope already has its counterexamples:
					// drop the rest of this scope, go on with the others
					var keep []job
					for _, pj := range a.pending {
						if pj.scope != j.scope {
							keep = append(keep, pj)
						}
					}
					a.pending = keep
					a.sum.Exhaustive = false
					a.sum.Caps = append(a.sum.Caps, fmt.Sprintf("scope %s abandoned after %d worker deaths (hangs/crashes), each reported as a violation", scopes[j.scope].Name, maxDeaths))
				}
				if a.deathsByScope[j.scope] >= maxDeaths {
					requeue = nil
				}
				a.mu.Unlock()
				dead := &shardResult{Scope: j.scope, NViol: 1, Execs: 1,
					Viol:      []Violation{{Scope: scopes[j.scope].Name, Index: ix, Kind: kind, Detail: detail}},
					ViolCases: []uint64{ix}}
				a.done(job{scope: j.scope, lo: ix, hi: ix + 1}, dead, requeue)
			}
			if p != nil {
				if sk := p.finish(); sk != nil {
					a.mu.Lock()
					a.sketch.Or(sk)
					a.mu.Unlock()
				}
			}
		}()
	}
	wg.Wait()
	sum.Distinct = a.sketch.Ones()
	sum.Evaluations = sum.Transitions
	sum.Validated = sum.Transitions
	for i := range sum.Scopes {
		sum.Scopes[i].Complete = sum.Scopes[i].Done == sum.Scopes[i].Size
		if !sum.Scopes[i].Complete {
			sum.Exhaustive = false
		}
	}
	for _, v := range sum.ViolCases {
		sort.Slice(v, func(i, j int) bool { return v[i] < v[j] })
	}
	sort.SliceStable(sum.Viol, func(i, j int) bool {
		if sum.Viol[i].Scope != sum.Viol[j].Scope {
			return scopeOrder(scopes, sum.Viol[i].Scope) < scopeOrder(scopes, sum.Viol[j].Scope)
		}
		return sum.Viol[i].Index < sum.Viol[j].Index
	})
	return sum
}

func scopeOrder(scopes []*Scope, name string) int {
	for i, s := range scopes {
		if s.Name == name {
			return i
		}
	}
	return len(scopes)
}

func scopeByName(scopes []*Scope, name string) (int, *Scope) {
	for i, s := range scopes {
		if s.Name == name {
			return i, s
		}
	}
	return -1, nil
}

// recheck re-runs exactly the given violating cases on another build (exe)
// and returns the set of cases that still violate there.
func recheck(env *Env, exe string, scopes []*Scope, cases map[string][]uint64) (map[string]map[uint64]bool, []string) {
	var jobs []job
	for name, list := range cases {
		si, _ := scopeByName(scopes, name)
		if si < 0 {
			continue
		}
		for lo := 0; lo < len(list); lo += 2000 {
			hi := lo + 2000
			if hi > len(list) {
				hi = len(list)
			}
			jobs = append(jobs, job{scope: si, list: list[lo:hi]})
		}
	}
	e2 := *env
	e2.Start = time.Now()
	e2.Budget = 24 * time.Hour
	s := RunScopes(&e2, exe, scopes, jobs)
	still := map[string]map[uint64]bool{}
	for name, list := range s.ViolCases {
		m := map[uint64]bool{}
		for _, ix := range list {
			m[ix] = true
		}
		still[name] = m
	}
	return still, s.Internal
}

func runCmd(dir string, env []string, name string, args ...string) (string, error) {
	cmd := exec.Command(name, args...)
	cmd.Dir = dir
	if env != nil {
		cmd.Env = append(os.Environ(), env...)
	}
	var buf bytes.Buffer
	cmd.Stdout = &buf
	cmd.Stderr = &buf
	err := cmd.Run()
	return buf.String(), err
}
