package drv

import (
	"bufio"
	"fmt"
	"os"
	"strconv"
	"strings"
)

// WorkerMain is the body of a worker subprocess: it reads "scope lo hi" lines
// on stdin, runs the cases, answers with one JSON line per shard and finally a
// line carrying the distinct-outcome sketch.
func WorkerMain(id, tier string) int {
	chk := Lookup(id)
	if chk == nil {
		fmt.Fprintf(os.Stderr, "unknown check %s\n", id)
		return 2
	}
	scopes := chk.Scopes(tier)
	trace := os.Getenv("VERIF_TRACE") == "1"
	startWatchdog()
	sketch := NewSketch()
	in := bufio.NewScanner(os.Stdin)
	in.Buffer(make([]byte, 1<<20), 1<<26)
	out := bufio.NewWriterSize(os.Stdout, 1<<16)
	for in.Scan() {
		f := strings.Fields(in.Text())
		if len(f) == 0 {
			continue
		}
		si, _ := strconv.Atoi(f[0])
		if si < 0 || si >= len(scopes) {
			fmt.Fprintf(os.Stderr, "bad scope index %d\n", si)
			return 2
		}
		sc := scopes[si]
		wdScope.Store(sc.Name)
		c := &Ctx{Scope: sc, Counters: map[string]uint64{}, sketch: sketch}
		var lo, hi uint64
		if f[1] == "list" {
			// explicit index list: scope list i1 i2 ...
			for _, s := range f[2:] {
				ix, _ := strconv.ParseUint(s, 10, 64)
				runCase(c, ix, trace)
			}
		} else {
			lo, _ = strconv.ParseUint(f[1], 10, 64)
			hi, _ = strconv.ParseUint(f[2], 10, 64)
			for ix := lo; ix < hi; ix++ {
				runCase(c, ix, trace)
			}
		}
		if c.xhUsed {
			c.Counters[fmt.Sprintf("xhash|%s|%d|%d", sc.Name, lo, hi)] = c.xh | 1
		}
		r := shardResult{Scope: si, Lo: lo, Hi: hi, Execs: c.Execs, Nontrivial: c.Nontrivial,
			Counters: c.Counters, NViol: c.nViol, Viol: c.Viol, ViolCases: c.ViolCases}
		out.Write(mustJSON(r))
		out.WriteByte('\n')
		out.Flush()
	}
	out.Write(mustJSON(shardResult{Final: true, Sketch: sketch.Bytes()}))
	out.WriteByte('\n')
	out.Flush()
	return 0
}

// ReplayCase runs a single case verbosely in this process and returns its
// violations.
func ReplayCase(chk *Check, scopeName string, idx uint64) ([]Violation, *Scope, error) {
	return ReplayCaseTier(chk, "", scopeName, idx)
}

// ReplayCaseTier looks the scope up in the given tier first (a scope name can stand for a larger space in the
// thorough tier), then in the other one.
func ReplayCaseTier(chk *Check, first, scopeName string, idx uint64) ([]Violation, *Scope, error) {
	tiers := []string{"quick", "thorough"}
	if first == "thorough" {
		tiers = []string{"thorough", "quick"}
	}
	for _, tier := range tiers {
		for _, sc := range chk.Scopes(tier) {
			if sc.Name == scopeName {
				if idx >= sc.Size {
					return nil, sc, fmt.Errorf("index %d out of range for scope %s (size %d)", idx, sc.Name, sc.Size)
				}
				c := &Ctx{Scope: sc, Counters: map[string]uint64{}, sketch: NewSketch(), Verbose: true}
				runCase(c, idx, false)
				return c.Viol, sc, nil
			}
		}
	}
	return nil, nil, fmt.Errorf("scope %q not found in check %s", scopeName, chk.ID)
}
