// Package enum holds the explicitly indexed finite input spaces: lattices,
// embeddings, path spaces P(k,n) and their products, with rank/unrank.
package enum

import (
	clipper "github.com/bolom009/go-clipper2"
)

type Pt = clipper.Point64
type Path = clipper.Path64
type Paths = clipper.Paths64

// Embed maps lattice points to coordinates.
type Embed struct {
	Name  string
	F     func(x, y int64) Pt
	Big   bool // coordinates of magnitude ~2^28: oracles switch to scale 2 / big arithmetic
	Pitch int64
}

var (
	// axis aligned, stride 10: horizontal edges, shared/collinear edges, thirds/halves crossings
	Eax = Embed{Name: "E_ax", F: func(x, y int64) Pt { return Pt{X: 10 * x, Y: 10 * y} }}
	// sheared: no horizontal edge at all
	Esh = Embed{Name: "E_sh", F: func(x, y int64) Pt { return Pt{X: 10 * x, Y: 10*y + 3*x} }}
	// shallow angles: rounded intersections create micro self-intersections
	Ean = Embed{Name: "E_an", F: func(x, y int64) Pt { return Pt{X: 17*x + 2*y, Y: 5 * y} }}
	// unit differences
	Eunit = Embed{Name: "E_unit", F: func(x, y int64) Pt { return Pt{X: x, Y: y} }}
	// stride 20 variants (offset / minkowski scopes)
	Eax20 = Embed{Name: "E_ax20", F: func(x, y int64) Pt { return Pt{X: 20 * x, Y: 20 * y} }}
	Esh20 = Embed{Name: "E_sh20", F: func(x, y int64) Pt { return Pt{X: 20 * x, Y: 20*y + 7*x} }}
	// magnitude 2^28 (lattice value 1 maps to 0)
	Ebig = Embed{Name: "E_big", Big: true, F: func(x, y int64) Pt { return Pt{X: (x - 1) << 28, Y: (y - 1) << 28} }}
	// skewed big variant
	EbigSk = Embed{Name: "E_bigsk", Big: true, F: func(x, y int64) Pt {
		return Pt{X: (x-1)<<28 + 12345*y, Y: (y-1)<<28 + 54321*x}
	}}
)

// big odd multipliers: coordinate differences near 2^28 with many significant bits (products are not
// representable in float64, unlike the power-of-two multiples of Ebig); the map is linear, so lattice
// collinearity is preserved exactly
var EbigOdd = Embed{Name: "E_bigodd", Big: true, F: func(x, y int64) Pt {
	return Pt{X: (x-1)*134217729 + 3*(y-1), Y: (y-1)*134217731 + 5*(x-1)}
}}

// nearly horizontal edges: |dx/dy| between 140 and 280 for every non-horizontal lattice edge (the branch of the
// sweep that repairs an intersection point computed outside its scanbeam distinguishes |dx| > 100)
var Eflat = Embed{Name: "E_flat", F: func(x, y int64) Pt { return Pt{X: 700*x + 3*y, Y: 5 * y} }}

func EmbedByName(n string) Embed {
	for _, e := range []Embed{Eax, Esh, Ean, Eunit, Eax20, Esh20, Ebig, EbigSk, EbigOdd, Eflat} {
		if e.Name == n {
			return e
		}
	}
	panic("no embedding " + n)
}

// Pow returns b^e.
func Pow(b uint64, e int) uint64 {
	r := uint64(1)
	for i := 0; i < e; i++ {
		r *= b
	}
	return r
}

// PathCount is |P(k,n)| = k^(2n).
func PathCount(k, n int) uint64 { return Pow(uint64(k*k), n) }

// UnrankPath writes the idx-th member of P(k,n) under embedding e into buf.
func UnrankPath(idx uint64, k, n int, e Embed, buf Path) Path {
	buf = buf[:0]
	kk := uint64(k * k)
	for i := 0; i < n; i++ {
		d := idx % kk
		idx /= kk
		buf = append(buf, e.F(int64(d%uint64(k)), int64(d/uint64(k))))
	}
	return buf
}

// UnrankLattice writes the raw lattice points (no embedding).
func UnrankLattice(idx uint64, k, n int, buf Path) Path {
	return UnrankPath(idx, k, n, Eunit, buf)
}

// Mixed-radix helper: Split returns idx % radix and idx / radix.
func Split(idx, radix uint64) (uint64, uint64) { return idx % radix, idx / radix }

// ClonePath returns a copy of p.
func ClonePath(p Path) Path { return append(Path(nil), p...) }

func ClonePaths(ps Paths) Paths {
	if ps == nil {
		return nil
	}
	out := make(Paths, len(ps))
	for i, p := range ps {
		if p != nil {
			out[i] = append(make(Path, 0, len(p)), p...)
		}
	}
	return out
}

func EqualPath(a, b Path) bool {
	if len(a) != len(b) {
		return false
	}
	for i := range a {
		if a[i] != b[i] {
			return false
		}
	}
	return true
}

func EqualPaths(a, b Paths) bool {
	if len(a) != len(b) {
		return false
	}
	for i := range a {
		if !EqualPath(a[i], b[i]) {
			return false
		}
	}
	return true
}

// HashPaths is an order-sensitive hash of a path set.
func HashPaths(ps Paths) uint64 {
	h := uint64(14695981039346656037)
	mix := func(v uint64) {
		h ^= v
		h *= 1099511628211
	}
	for _, p := range ps {
		mix(0x9e3779b97f4a7c15)
		for _, q := range p {
			mix(uint64(q.X))
			mix(uint64(q.Y) + 0x51)
		}
	}
	return h
}
