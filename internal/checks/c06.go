package checks

import (
	"fmt"

	clipper "github.com/bolom009/go-clipper2"

	"verif/internal/drv"
	"verif/internal/enum"
	"verif/internal/oracle"
)

// Rectangle-clip lattices: one representative per location class per axis
// (left of, on the left side, inside, on the right side, right of), so that
// P(R,n) contains every abstract location sequence of length n.
type rcLattice struct {
	name   string
	xs, ys []int64
	rect   [4]int64 // left, top, right, bottom
	shear  int64    // y += shear*x/10 on path coordinates (rect stays axis aligned)
}

var (
	rcR5  = rcLattice{name: "R5", xs: []int64{0, 10, 20, 30, 40}, ys: []int64{0, 10, 20, 30, 40}, rect: [4]int64{10, 10, 30, 30}}
	rcR6  = rcLattice{name: "R6", xs: []int64{0, 10, 17, 24, 30, 40}, ys: []int64{0, 10, 17, 24, 30, 40}, rect: [4]int64{10, 10, 30, 30}}
	rcR5s = rcLattice{name: "R5sheared", xs: []int64{0, 10, 20, 30, 40}, ys: []int64{0, 10, 20, 30, 40}, rect: [4]int64{10, 13, 30, 33}, shear: 3}
	// long paths over few points: the four corners of a frame around the rectangle (loops that wind around it
	// several times without touching it), and the frame's corners, side midpoints and centre
	rcC4 = rcLattice{name: "frame corners", xs: []int64{0, 40}, ys: []int64{0, 40}, rect: [4]int64{10, 10, 30, 30}}
	rcC9 = rcLattice{name: "frame 3x3", xs: []int64{0, 20, 40}, ys: []int64{0, 20, 40}, rect: [4]int64{10, 10, 30, 30}}
	rcR4 = rcLattice{name: "R4", xs: []int64{0, 10, 20, 30}, ys: []int64{0, 10, 20, 30}, rect: [4]int64{10, 10, 20, 20}}
	// other rectangles on R5 coordinates: non-square, touching the lattice edge, one unit wide
	rcOther = [][4]int64{{0, 10, 40, 30}, {10, 0, 20, 40}, {0, 0, 40, 40}, {20, 20, 21, 30}, {10, 10, 20, 30}, {5, 15, 35, 25}}
)

func (l rcLattice) n() uint64 { return uint64(len(l.xs) * len(l.ys)) }

func (l rcLattice) pt(d uint64) Pt {
	x := l.xs[d%uint64(len(l.xs))]
	y := l.ys[d/uint64(len(l.xs))]
	return Pt{X: x, Y: y + l.shear*x/10}
}

func (l rcLattice) path(idx uint64, n int, buf Path) Path {
	buf = buf[:0]
	k := l.n()
	for i := 0; i < n; i++ {
		buf = append(buf, l.pt(idx%k))
		idx /= k
	}
	return buf
}

func (l rcLattice) count(n int) uint64 { return enum.Pow(l.n(), n) }

type rcWorker struct {
	win, wout []int16
	on        []bool
	diff      []int32
	g         *oracle.Grid
}

// c06Check verifies one RectClipPaths64 result.
func c06Check(c *drv.Ctx, w *rcWorker, rect [4]int64, in, out Paths, tag string) {
	l, t, r, b := rect[0], rect[1], rect[2], rect[3]
	for _, p := range out {
		for _, q := range p {
			if q.X < l-1 || q.X > r+1 || q.Y < t-1 || q.Y > b+1 {
				c.Fail("vertex-outside", tag, "%s: result vertex %v lies more than 1 unit outside the rectangle (%d,%d,%d,%d); input %v result %v", tag, q, l, t, r, b, in, out)
				return
			}
		}
	}
	// fast paths demanded literally
	for _, p := range in {
		if len(p) < 3 {
			continue
		}
		minX, minY, maxX, maxY, _ := oracle.Bounds(Paths{p})
		if len(in) == 1 && minX >= l && maxX <= r && minY >= t && maxY <= b {
			if len(out) != 1 || !enum.EqualPath(out[0], p) {
				c.Fail("inside-not-unchanged", tag, "%s: path %v lies entirely inside the rectangle (%d,%d,%d,%d) but the result is %v", tag, p, l, t, r, b, out)
				return
			}
		}
		if len(in) == 1 && (maxX < l || minX > r || maxY < t || minY > b) && len(out) != 0 {
			c.Fail("outside-not-vanished", tag, "%s: path %v lies entirely beyond one side of the rectangle (%d,%d,%d,%d) but the result is %v", tag, p, l, t, r, b, out)
			return
		}
	}
	// winding numbers on the witness lattice
	minX, minY, maxX, maxY, ok := oracle.Bounds(in, out, Paths{{{X: l, Y: t}, {X: r, Y: b}}})
	if !ok {
		return
	}
	g := oracle.NewGrid(minX, minY, maxX, maxY, 3, 4, 4)
	n := g.N()
	w.win, w.wout, w.on = fit16(w.win, n), fit16(w.wout, n), fitB(w.on, n)
	if cap(w.diff) < n+1 {
		w.diff = make([]int32, n+1)
	}
	w.diff = w.diff[:n+1]
	g.Wind(in, w.win, w.on, w.diff)
	g.Wind(out, w.wout, w.on, w.diff)
	S := g.S
	for k := 0; k < n; k++ {
		if w.on[k] {
			continue
		}
		px, py := g.WX(k%g.NX), g.WY(k/g.NX)
		insideDeep := px > (l+2)*S && px < (r-2)*S && py > (t+2)*S && py < (b-2)*S
		outsideFar := px < (l-2)*S || px > (r+2)*S || py < (t-2)*S || py > (b+2)*S
		switch {
		case insideDeep && w.wout[k] != w.win[k]:
			if g.FarFromEdges(px, py, 2, true, in) {
				c.Fail("winding-inside", tag, "%s: at (%g,%g), inside the rectangle (%d,%d,%d,%d) and > 2 units from its boundary and from every input edge, the result has winding %d, the input %d; input %v result %v",
					tag, float64(px)/float64(S), float64(py)/float64(S), l, t, r, b, w.wout[k], w.win[k], in, out)
				return
			}
		case outsideFar && w.wout[k] != 0:
			c.Fail("winding-outside", tag, "%s: at (%g,%g), outside the rectangle (%d,%d,%d,%d), the result has winding %d; input %v result %v",
				tag, float64(px)/float64(S), float64(py)/float64(S), l, t, r, b, w.wout[k], in, out)
			return
		}
	}
}

func rcCrosses(rect [4]int64, p Path) bool {
	in, outside := false, false
	for _, q := range p {
		if q.X > rect[0] && q.X < rect[2] && q.Y > rect[1] && q.Y < rect[3] {
			in = true
		}
		if q.X < rect[0] || q.X > rect[2] || q.Y < rect[1] || q.Y > rect[3] {
			outside = true
		}
	}
	return in && outside
}

func c06Scope(l rcLattice, n int, rect [4]int64, level int, twoPaths bool) *drv.Scope {
	var w rcWorker
	var buf, buf2 Path
	cnt := l.count(n)
	size := cnt
	name := fmt.Sprintf("rectclip/P(%s,%d) rect(%d,%d,%d,%d)", l.name, n, rect[0], rect[1], rect[2], rect[3])
	if twoPaths {
		size = cnt * cnt
		name = fmt.Sprintf("rectclip/P(%s,%d)^2 rect(%d,%d,%d,%d)", l.name, n, rect[0], rect[1], rect[2], rect[3])
	}
	r64 := clipper.NewRect64(rect[0], rect[1], rect[2], rect[3])
	return &drv.Scope{Name: name, Level: level, Size: size,
		Show: func(idx uint64) any {
			ps := Paths{l.path(idx%cnt, n, nil)}
			if twoPaths {
				ps = append(ps, l.path(idx/cnt, n, nil))
			}
			return map[string]any{"rect(l,t,r,b)": rect, "paths": pathsLit(ps)}
		},
		Run: func(c *drv.Ctx, idx uint64) {
			buf = l.path(idx%cnt, n, buf)
			in := Paths{buf}
			if twoPaths {
				buf2 = l.path(idx/cnt, n, buf2)
				in = Paths{buf, buf2}
			}
			out := clipper.RectClipPaths64(r64, in)
			c.Exec(1)
			c.Output(enum.HashPaths(out))
			c06Check(c, &w, rect, in, out, "RectClipPaths64")
			if !twoPaths && idx%16 == 0 {
				o2 := clipper.RectClipPath64(r64, buf)
				c.Exec(1)
				if !enum.EqualPaths(out, o2) && !(len(out) == 0 && len(o2) == 0) {
					c.Fail("single-path-variant", "RectClipPath64", "RectClipPath64 result %v differs from RectClipPaths64 %v for %v", o2, out, buf)
				}
			}
			if rcCrosses(rect, buf) {
				c.Nontriv()
				c.Count("paths_crossing_the_rectangle_boundary", 1)
			}
			if len(out) > 1 {
				c.Count("results_with_several_paths", 1)
			}
		}}
}

func init() {
	drv.Register(&drv.Check{
		ID:    "C06",
		Title: "Rectangle clipping keeps exactly what is inside the rectangle",
		Rule: "the clipper is a location automaton (left/top/right/bottom/inside plus on-the-boundary per axis); the lattice R5 has one coordinate per class per axis (0,10,20,30,40 against the rectangle [10,30]^2), so P(R5,n) is the concretisation of every abstract location sequence of length n: all of P(R5,3..5[,6]) are enumerated, plus R6 (two interior representatives, asymmetric slopes), a sheared copy (rounded crossings), two-path sets P(R4,3)^2 (state carried between paths of one Execute) and 6 other rectangles (non-square, touching the lattice edge, one unit wide). " +
			"Oracle: result vertices within rect+1; exact winding numbers on a pitch-1 witness lattice: result = input at witnesses inside the rectangle > 2 units from its boundary and from input edges, result = 0 at witnesses > 2 outside; a path inside the rectangle is returned unchanged, a path entirely beyond one side vanishes. non-trivial = path with a vertex strictly inside and one strictly outside",
		Assumptions:      []string{"paths of <= 5 (quick) / 6 (thorough) vertices; rectangle and lattice fixed per scope"},
		RequiredCounters: []string{"paths_crossing_the_rectangle_boundary", "results_with_several_paths"},
		Scopes: func(tier string) []*drv.Scope {
			var out []*drv.Scope
			out = append(out, c06Scope(rcR5, 3, rcR5.rect, 1, false), c06Scope(rcR5, 4, rcR5.rect, 2, false))
			out = append(out, c06Scope(rcR6, 3, rcR6.rect, 1, false), c06Scope(rcR5s, 3, rcR5s.rect, 1, false), c06Scope(rcR5s, 4, rcR5s.rect, 2, false))
			for _, r := range rcOther {
				out = append(out, c06Scope(rcR5, 3, r, 2, false))
			}
			out = append(out, c06Scope(rcR4, 3, rcR4.rect, 3, true))
			out = append(out, c06Scope(rcR5, 5, rcR5.rect, 3, false))
			out = append(out, c06Scope(rcC4, 8, rcC4.rect, 4, false), c06Scope(rcC9, 6, rcC9.rect, 4, false))
			if tier == "quick" {
				return out
			}
			out = append(out, c06Scope(rcR6, 4, rcR6.rect, 3, false), c06Scope(rcR6, 5, rcR6.rect, 4, false), c06Scope(rcR5s, 5, rcR5s.rect, 4, false))
			for _, r := range rcOther {
				out = append(out, c06Scope(rcR5, 4, r, 3, false))
			}
			out = append(out, c06Scope(rcR5, 6, rcR5.rect, 5, false), c06Scope(rcC9, 7, rcC9.rect, 5, false), c06Scope(rcC4, 10, rcC4.rect, 5, false))
			return out
		},
	})
}
