package checks

import (
	"errors"
	"fmt"
	"math"
	"math/big"

	clipper "github.com/bolom009/go-clipper2"

	"verif/internal/drv"
	"verif/internal/enum"
)

type PathD = clipper.PathD
type PathsD = clipper.PathsD

var c07Fracs = []float64{0, 0.25, -0.25, 0.4, -0.4, 0.6}

// quantRef: exact value of the float64 times 10^p, rounded to the nearest
// integer. tie reports an exact .5 (either neighbour is accepted).
func quantRef(v float64, p int) (lo, hi int64) {
	r := new(big.Rat).SetFloat64(v)
	ten := new(big.Rat).SetInt(new(big.Int).Exp(big.NewInt(10), big.NewInt(int64(abs(p))), nil))
	if p >= 0 {
		r.Mul(r, ten)
	} else {
		r.Quo(r, ten)
	}
	// floor(r + 1/2)
	half := big.NewRat(1, 2)
	s := new(big.Rat).Add(r, half)
	fl := new(big.Int).Div(s.Num(), s.Denom()) // Div is Euclidean: floor for positive denominators
	if s.IsInt() {
		// exact tie: r = n - 1/2 -> both n-1 and n accepted
		return fl.Int64() - 1, fl.Int64()
	}
	// a product within 1e-9 of a tie is a tie for a float64 API (the float product itself rounds there)
	fr := new(big.Rat).Sub(s, new(big.Rat).SetInt(fl)) // in (0,1): distance above the tie
	eps := big.NewRat(1, 1_000_000_000)
	rel := new(big.Rat).Abs(r)
	rel.Quo(rel, new(big.Rat).SetInt(new(big.Int).Lsh(big.NewInt(1), 50)))
	eps.Add(eps, rel) // one unit in the last place of the float64 product
	if fr.Cmp(eps) < 0 {
		return fl.Int64() - 1, fl.Int64()
	}
	if new(big.Rat).Sub(big.NewRat(1, 1), fr).Cmp(eps) < 0 {
		return fl.Int64(), fl.Int64() + 1
	}
	return fl.Int64(), fl.Int64()
}

func abs(x int) int {
	if x < 0 {
		return -x
	}
	return x
}

// unscaleRef: x / 10^p as the nearest float64.
func unscaleRef(x int64, p int) float64 {
	r := new(big.Rat).SetInt64(x)
	ten := new(big.Rat).SetInt(new(big.Int).Exp(big.NewInt(10), big.NewInt(int64(abs(p))), nil))
	if p >= 0 {
		r.Quo(r, ten)
	} else {
		r.Mul(r, ten)
	}
	f, _ := r.Float64()
	return f
}

// quantPaths quantises with the reference; ok=false if some coordinate is an exact tie (skipped).
func quantPaths(ps PathsD, p int) (Paths, bool) {
	if ps == nil {
		return nil, true
	}
	out := make(Paths, len(ps))
	for i, path := range ps {
		out[i] = make(Path, len(path))
		for j, q := range path {
			xl, xh := quantRef(q.X, p)
			yl, yh := quantRef(q.Y, p)
			if xl != xh || yl != yh {
				return nil, false
			}
			out[i][j] = Pt{X: xl, Y: yl}
		}
	}
	return out, true
}

func sameD(got PathsD, want Paths, p int) string {
	if len(got) != len(want) {
		return fmt.Sprintf("%d paths, the 64-bit counterpart returns %d", len(got), len(want))
	}
	for i := range got {
		if len(got[i]) != len(want[i]) {
			return fmt.Sprintf("path %d has %d vertices, the 64-bit counterpart has %d", i, len(got[i]), len(want[i]))
		}
		for j := range got[i] {
			wx, wy := unscaleRef(want[i][j].X, p), unscaleRef(want[i][j].Y, p)
			if !within1ulp(got[i][j].X, wx) || !within1ulp(got[i][j].Y, wy) {
				return fmt.Sprintf("path %d vertex %d is (%v,%v), the 64-bit counterpart gives %v / 10^%d = (%v,%v)", i, j, got[i][j].X, got[i][j].Y, want[i][j], p, wx, wy)
			}
		}
	}
	return ""
}

// c07Input builds float paths whose quantised form is the lattice path: (10*c + f) / 10^p.
func c07Float(lat Path, p int, fracShift int) PathD {
	out := make(PathD, len(lat))
	pw := math.Pow(10, float64(p))
	for i, q := range lat {
		fx := c07Fracs[(2*i+fracShift)%len(c07Fracs)]
		fy := c07Fracs[(2*i+1+fracShift)%len(c07Fracs)]
		out[i] = clipper.PointD{X: (float64(10*q.X) + fx) / pw, Y: (float64(10*q.Y) + fy) / pw}
	}
	return out
}

// callD runs f; it returns "panic:<msg>" information.
func callD(f func()) (panicked bool, isPrecision bool, msg string) {
	defer func() {
		if r := recover(); r != nil {
			panicked = true
			if err, ok := r.(error); ok && errors.Is(err, clipper.ErrPrecisionRange) {
				isPrecision = true
			}
			msg = fmt.Sprint(r)
		}
	}()
	f()
	return
}

var c07Precisions = []int{-8, -7, -6, -5, -4, -3, -2, -1, 0, 1, 2, 3, 4, 5, 6, 7, 8}

// c07UnscaleScope: the scale-out step of every D entry point on integers beyond 2^53 (not representable in
// float64, so int -> float -> divide rounds twice): ScalePath64ToPathD(v, 10^-p) must be the correctly rounded
// value of v / 10^p for p >= 0 (the implementation multiplies decimals exactly and rounds once); for p < 0 the
// factor 1/10^p is itself a rounded float, so one ulp is allowed there.
func c07UnscaleScope() *drv.Scope {
	vals := []int64{1<<53 + 1, 9007199254741025, 1<<53 + 3, 1<<54 + 2, 1<<56 + 77, 1<<60 + 12345, 1000000000000000007, 4611686018427387903, -(1<<53 + 1), -9007199254741025, -(1<<60 + 12345), 123456789, 25, 1<<53 - 1}
	ps := []int{-3, -1, 0, 1, 2, 3, 4, 5, 6, 7, 8}
	nV, nP := uint64(len(vals)), uint64(len(ps))
	return &drv.Scope{Name: "unscale/ScalePath64ToPathD on integers beyond 2^53 x 11 precisions", Level: 1, Size: nV * nV * nP,
		Show: func(idx uint64) any {
			return map[string]any{"point": Pt{X: vals[idx%nV], Y: vals[idx/nV%nV]}, "precision": ps[idx/(nV*nV)]}
		},
		Run: func(c *drv.Ctx, idx uint64) {
			pt, p := Pt{X: vals[idx%nV], Y: vals[idx/nV%nV]}, ps[idx/(nV*nV)]
			got := clipper.ScalePath64ToPathD(Path{pt}, 1/math.Pow(10, float64(p)))
			c.Exec(1)
			wx, wy := unscaleRef(pt.X, p), unscaleRef(pt.Y, p)
			ok := got[0].X == wx && got[0].Y == wy
			if p < 0 {
				ok = within1ulp(got[0].X, wx) && within1ulp(got[0].Y, wy)
			}
			if !ok {
				c.Fail("unscale", fmt.Sprintf("precision=%d", p), "ScalePath64ToPathD(%v, 10^-%d)=%v, the exact quotient rounded once is (%v,%v)", pt, p, got[0], wx, wy)
			}
			c.Nontriv()
		}}
}

func c07Scope(tier string) *drv.Scope {
	nS := enum.PathCount(3, 3)
	// coprime to 9, so the selected clip triangles are not pinned to lattice point 0
	clipStride := uint64(80)
	if tier == "thorough" {
		clipStride = 10
	}
	nC := (nS + clipStride - 1) / clipStride
	nP := uint64(len(c07Precisions) + 1) // + default omitted
	nF := uint64(2)
	if tier == "thorough" {
		nF = 6
	}
	var sb, cb Path
	return &drv.Scope{Name: fmt.Sprintf("D-vs-64/P(3,3) x every %d-th of P(3,3) x 18 precisions x %d fraction patterns", clipStride, nF), Level: 2, Size: nS * nC * nP * nF,
		Show: func(idx uint64) any {
			s := idx % nS
			cc := (idx / nS) % nC * clipStride
			pi := (idx / (nS * nC)) % nP
			fs := idx / (nS * nC * nP)
			p := "default (2)"
			if pi < uint64(len(c07Precisions)) {
				p = fmt.Sprint(c07Precisions[pi])
			}
			return map[string]any{"subject lattice": pathLit(enum.UnrankLattice(s, 3, 3, nil)), "clip lattice": pathLit(enum.UnrankLattice(cc, 3, 3, nil)), "precision": p, "fraction pattern": fs,
				"float value": "(10*c + f)/10^p, f cycling through 0, .25, -.25, .4, -.4, .6"}
		},
		Run: func(c *drv.Ctx, idx uint64) {
			sb = enum.UnrankLattice(idx%nS, 3, 3, sb)
			cb = enum.UnrankLattice((idx/nS)%nC*clipStride, 3, 3, cb)
			pi := (idx / (nS * nC)) % nP
			fs := int(idx / (nS * nC * nP))
			p := 2
			var pv []int
			if pi < uint64(len(c07Precisions)) {
				p = c07Precisions[pi]
				pv = []int{p}
			}
			SD := PathsD{c07Float(sb, p, fs)}
			CD := PathsD{c07Float(cb, p, fs+1)}
			S, ok1 := quantPaths(SD, p)
			C, ok2 := quantPaths(CD, p)
			if !ok1 || !ok2 {
				c.Count("skipped_exact_tie", 1)
				return
			}
			scale := math.Pow(10, float64(p))
			sub := fmt.Sprintf("precision=%d", p)
			fail := func(kind, name string, pan bool, msg, d string) {
				if pan {
					c.Fail("panic", name, "%s %s panicked: %s; subject=%v clip=%v", name, sub, msg, SD, CD)
				} else if d != "" {
					c.Fail(kind, name, "%s %s: %s; subject=%v clip=%v", name, sub, d, SD, CD)
				}
			}
			nt := false
			// 1. boolean operations (flat), every (ct, fr) on a rotating subset to keep the cost flat
			for k, ct := range allClipTypes {
				fr := allFillRules[(int(idx)+k)%4]
				var got PathsD
				pan, _, msg := callD(func() { got = clipper.BooleanOpPathsD(ct, SD, CD, fr, pv...) })
				want := clipper.BooleanOpPaths64(ct, S, C, fr)
				c.Exec(2)
				fail("boolean", "BooleanOpPathsD/"+cfgName(ct, fr), pan, msg, sameD(got, want, p))
				if len(want) > 0 {
					nt = true
				}
				c.Output(enum.HashPaths(want) + uint64(p+20))
			}
			{
				fr := allFillRules[idx%4]
				var u, uc, ic, dc, xc PathsD
				pan, _, msg := callD(func() {
					u = clipper.UnionPathsD(SD, fr, pv...)
					uc = clipper.UnionWithClipPathsD(SD, CD, fr, pv...)
					ic = clipper.IntersectWithClipPathsD(SD, CD, fr, pv...)
					dc = clipper.DifferenceWithClipPathsD(SD, CD, fr, pv...)
					xc = clipper.XorWithClipPathsD(SD, CD, fr, pv...)
				})
				c.Exec(10)
				if pan {
					fail("", "wrappersD", true, msg, "")
				} else {
					fail("wrapper", "UnionPathsD", false, "", sameD(u, clipper.UnionPaths64(S, fr), p))
					fail("wrapper", "UnionWithClipPathsD", false, "", sameD(uc, clipper.UnionWithClipPaths64(S, C, fr), p))
					fail("wrapper", "IntersectWithClipPathsD", false, "", sameD(ic, clipper.IntersectWithClipPaths64(S, C, fr), p))
					fail("wrapper", "DifferenceWithClipPathsD", false, "", sameD(dc, clipper.DifferenceWithClipPaths64(S, C, fr), p))
					fail("wrapper", "XorWithClipPathsD", false, "", sameD(xc, clipper.XorWithClipPaths64(S, C, fr), p))
				}
			}
			// 2. engine object with an open subject, and the tree
			{
				ct, fr := allClipTypes[(idx/4)%4], allFillRules[(idx/16)%4]
				var gc, gopen PathsD
				var tree *clipper.PolyTreeD
				var gc2, go2 PathsD
				pan, _, msg := callD(func() {
					e := clipper.NewClipperD(p)
					e.AddPaths(SD, clipper.Subject, true)
					e.AddPaths(CD, clipper.Clip, false)
					e.ExecuteOC(ct, fr, &gc, &gopen)
					// the variants taking the caller's scale functions, given the library's own ones
					e2 := clipper.NewClipperD(p)
					e2.AddPathsWithScaleFunc(SD, clipper.Subject, true, clipper.ScalePathsDToPaths64)
					e2.AddPathsWithScaleFunc(CD, clipper.Clip, false, clipper.ScalePathsDToPaths64)
					e2.ExecuteWithScaleFunc(ct, fr, &gc2, &go2, clipper.ScalePath64ToPathD)
					tree = clipper.BooleanOpPolyTreeD(ct, SD, CD, fr, pv...)
				})
				e64 := clipper.NewClipper64()
				e64.AddPaths(S, clipper.Subject, true)
				e64.AddPaths(C, clipper.Clip, false)
				var wc, wo Paths
				e64.ExecuteOC(ct, fr, &wc, &wo)
				t64 := clipper.BooleanOpPolyTree64(ct, S, C, fr)
				c.Exec(4)
				if pan {
					fail("", "ClipperD/BooleanOpPolyTreeD", true, msg, "")
				} else {
					fail("engine", "ClipperD.ExecuteOC closed/"+cfgName(ct, fr), false, "", sameD(gc, wc, p))
					fail("engine", "ClipperD.ExecuteOC open/"+cfgName(ct, fr), false, "", sameD(gopen, wo, p))
					fail("engine", "ClipperD.ExecuteWithScaleFunc closed/"+cfgName(ct, fr), false, "", sameD(gc2, wc, p))
					fail("engine", "ClipperD.ExecuteWithScaleFunc open/"+cfgName(ct, fr), false, "", sameD(go2, wo, p))
					if a, b := canonTree(tree.PolyPathBase), canonTree(t64.PolyPathBase); a != b {
						fail("tree", "BooleanOpPolyTreeD/"+cfgName(ct, fr), false, "", fmt.Sprintf("tree %s differs from the 64-bit tree of the quantised input %s", a, b))
					}
					if tree.Scale() != scale {
						fail("tree", "BooleanOpPolyTreeD scale", false, "", fmt.Sprintf("tree scale %v, expected 10^%d", tree.Scale(), p))
					}
				}
			}
			// 3. inflate: delta and arc tolerance are multiplied by 10^p
			for k, cfg := range []struct {
				jt    clipper.JoinType
				et    clipper.EndType
				delta float64
				arc   float64
			}{{clipper.Round, clipper.Polygon, 1.25, 0.05}, {clipper.Miter, clipper.Polygon, -0.75, 0}, {clipper.Square, clipper.Joined, 1.25, 0}, {clipper.Round, clipper.RoundET, 0.75, 0.05}} {
				if (int(idx)+k)%2 == 1 {
					continue
				}
				dUser, aUser := cfg.delta*10/scale, cfg.arc*10/scale // user units chosen so that the scaled delta is 12.5 / -7.5
				opts := []clipper.InflateOption{clipper.WithArcTolerance(aUser), clipper.WithMitterLimit(3)}
				if pv != nil {
					opts = append(opts, clipper.WithPrecision(p))
				}
				var got PathsD
				pan, _, msg := callD(func() { got = clipper.InflatePathsD(SD, dUser, cfg.jt, cfg.et, opts...) })
				want := clipper.InflatePaths64(S, dUser*scale, cfg.jt, cfg.et, clipper.WithArcTolerance(aUser*scale), clipper.WithMitterLimit(3))
				c.Exec(2)
				fail("inflate", fmt.Sprintf("InflatePathsD(jt=%d,et=%d,delta=%v,arc=%v)", cfg.jt, cfg.et, dUser, aUser), pan, msg, sameD(got, want, p))
			}
			// 4. Minkowski
			for _, closed := range []bool{true, false} {
				var gs, gd PathsD
				pan, _, msg := callD(func() {
					gs = clipper.MinkowskiSumD(CD[0], SD[0], closed, pv...)
					gd = clipper.MinkowskiDiffD(CD[0], SD[0], closed, pv...)
				})
				c.Exec(4)
				if pan {
					fail("", "MinkowskiD", true, msg, "")
				} else {
					fail("minkowski", fmt.Sprintf("MinkowskiSumD(closed=%v)", closed), false, "", sameD(gs, clipper.MinkowskiSum64(C[0], S[0], closed), p))
					fail("minkowski", fmt.Sprintf("MinkowskiDiffD(closed=%v)", closed), false, "", sameD(gd, clipper.MinkowskiDiff64(C[0], S[0], closed), p))
				}
			}
			// 5./6. rectangle clipping: bounds quantised like coordinates. The second rectangle has its bounds less
			// than one quantum inside the lattice lines 0 and 20, so path vertices that are outside the float
			// rectangle land exactly on the quantised rectangle's edges.
			for ri, rb := range [][4]float64{{5 + 0.4, 5 - 0.4, 15 + 0.6, 25 - 0.25}, {0.4, 0.4, 20 - 0.4, 20 - 0.4}} {
				l, t, r, b := rb[0]/scale, rb[1]/scale, rb[2]/scale, rb[3]/scale
				rectD := clipper.NewRectD(l, t, r, b)
				ql, _ := quantRef(l, p)
				qt, _ := quantRef(t, p)
				qr, _ := quantRef(r, p)
				qb, _ := quantRef(b, p)
				rect := clipper.NewRect64(ql, qt, qr, qb)
				both := PathsD{SD[0], CD[0]}
				both64 := Paths{S[0], C[0]}
				var gp, gl PathsD
				pan, _, msg := callD(func() {
					gp = clipper.RectClipPathsD(rectD, both, pv...)
					gl = clipper.RectClipLinesPathsD(rectD, both, pv...)
				})
				c.Exec(4)
				if pan {
					fail("", "RectClipD", true, msg, "")
				} else {
					fail("rectclip", "RectClipPathsD", false, "", sameD(gp, clipper.RectClipPaths64(rect, both64), p))
					fail("rectclip", "RectClipLinesPathsD", false, "", sameD(gl, clipper.RectClipLinesPaths64(rect, both64), p))
				}
				if pv == nil && ri == 0 {
					var g1, g2 PathsD
					pan, _, msg := callD(func() {
						g1 = clipper.RectClipPathD(rectD, SD[0])
						g2 = clipper.RectClipLinesPathD(rectD, SD[0])
					})
					c.Exec(4)
					if pan {
						fail("", "RectClipPathD", true, msg, "")
					} else {
						fail("rectclip", "RectClipPathD", false, "", sameD(g1, clipper.RectClipPath64(rect, S[0]), p))
						fail("rectclip", "RectClipLinesPathD", false, "", sameD(g2, clipper.RectClipLinesPath64(rect, S[0]), p))
					}
				}
			}
			// 7. trimming
			for _, open := range []bool{false, true} {
				long := append(append(PathD{}, SD[0]...), CD[0]...)
				long64 := append(append(Path{}, S[0]...), C[0]...)
				var got PathD
				pan, _, msg := callD(func() { got = clipper.TrimCollinearD(long, p, open) })
				c.Exec(2)
				fail("trim", fmt.Sprintf("TrimCollinearD(open=%v)", open), pan, msg, sameD(PathsD{got}, Paths{clipper.TrimCollinear64(long64, open)}, p))
			}
			if nt {
				c.Nontriv()
				c.Count("cases_with_nonempty_boolean_result", 1)
			}
		}}
}

// c07RangeScope: precisions outside [-8,8] must be rejected with the documented panic and nothing else;
// inside the range nothing may panic.
func c07RangeScope() *drv.Scope {
	ps := []int{-100, -10, -9, 9, 10, 100, -8, 8, 0}
	tri := PathsD{{{X: 0, Y: 0}, {X: 10.5, Y: 0}, {X: 3.25, Y: 7.75}}}
	sq := PathsD{{{X: 2, Y: 1}, {X: 8, Y: 1}, {X: 8, Y: 6}, {X: 2, Y: 6}}}
	rect := clipper.NewRectD(1, 1, 6, 5)
	entries := []struct {
		name string
		f    func(p int)
	}{
		{"NewClipperD", func(p int) { clipper.NewClipperD(p) }},
		{"BooleanOpPathsD", func(p int) { clipper.BooleanOpPathsD(clipper.Intersection, tri, sq, clipper.NonZero, p) }},
		{"UnionPathsD", func(p int) { clipper.UnionPathsD(tri, clipper.NonZero, p) }},
		{"UnionWithClipPathsD", func(p int) { clipper.UnionWithClipPathsD(tri, sq, clipper.NonZero, p) }},
		{"IntersectWithClipPathsD", func(p int) { clipper.IntersectWithClipPathsD(tri, sq, clipper.NonZero, p) }},
		{"DifferenceWithClipPathsD", func(p int) { clipper.DifferenceWithClipPathsD(tri, sq, clipper.NonZero, p) }},
		{"XorWithClipPathsD", func(p int) { clipper.XorWithClipPathsD(tri, sq, clipper.NonZero, p) }},
		{"BooleanOpPolyTreeD", func(p int) { clipper.BooleanOpPolyTreeD(clipper.Union, tri, sq, clipper.EvenOdd, p) }},
		{"InflatePathsD", func(p int) { clipper.InflatePathsD(tri, 1.5, clipper.Round, clipper.Polygon, clipper.WithPrecision(p)) }},
		{"RectClipPathsD", func(p int) { clipper.RectClipPathsD(rect, tri, p) }},
		{"RectClipLinesPathsD", func(p int) { clipper.RectClipLinesPathsD(rect, tri, p) }},
		{"TrimCollinearD", func(p int) { clipper.TrimCollinearD(tri[0], p, false) }},
		{"MinkowskiSumD", func(p int) { clipper.MinkowskiSumD(sq[0], tri[0], true, p) }},
		{"MinkowskiDiffD", func(p int) { clipper.MinkowskiDiffD(sq[0], tri[0], false, p) }},
	}
	return &drv.Scope{Name: "precision-range/all D entry points", Level: 1, Size: uint64(len(ps) * len(entries)),
		Show: func(idx uint64) any {
			return map[string]any{"entry": entries[idx%uint64(len(entries))].name, "precision": ps[idx/uint64(len(entries))]}
		},
		Run: func(c *drv.Ctx, idx uint64) {
			e := entries[idx%uint64(len(entries))]
			p := ps[idx/uint64(len(entries))]
			pan, isPrec, msg := callD(func() { e.f(p) })
			c.Exec(1)
			out := p < -8 || p > 8
			switch {
			case out && !pan:
				c.Fail("precision-not-rejected", e.name, "%s accepted precision %d (outside [-8,8]) instead of panicking with ErrPrecisionRange", e.name, p)
			case out && !isPrec:
				c.Fail("wrong-panic", e.name, "%s(precision %d) panicked with %q instead of ErrPrecisionRange", e.name, p, msg)
			case !out && pan:
				c.Fail("panic", e.name, "%s(precision %d) panicked: %s", e.name, p, msg)
			}
			if out {
				c.Count("out_of_range_precisions_tried", 1)
			}
			c.Nontriv()
		}}
}

// c07HelperScope: the quantiser helpers alone, including exact ties.
func c07HelperScope() *drv.Scope {
	// 0.49999999999999994 + 0.5 rounds to 1 in float64; odd integers in [2^52, 2^53) are where v+0.5 is not representable
	fr := []float64{0, 0.25, 0.49, 0.5, 0.51, 0.75, 0.49999999999999994}
	ks := []float64{0, 1, 2, 7, 1234567, 99999999, 4503599627370497, 6755399441055745, 9007199254740991}
	n := uint64(len(fr) * len(ks) * 2 * len(c07Precisions))
	return &drv.Scope{Name: "quantiser-helpers/{k+f} x sign x precision", Level: 1, Size: n,
		Show: func(idx uint64) any { return idx },
		Run: func(c *drv.Ctx, idx uint64) {
			f := fr[idx%uint64(len(fr))]
			k := ks[(idx/uint64(len(fr)))%uint64(len(ks))]
			neg := (idx/uint64(len(fr)*len(ks)))%2 == 1
			p := c07Precisions[idx/uint64(len(fr)*len(ks)*2)]
			scale := math.Pow(10, float64(p))
			if k >= 1<<52 && p != 0 {
				// beyond 2^52 the float64 product v*10^p carries its own rounding error of up to half a unit, which the
				// statement's "multiplied by 10^p and rounded" does not settle: these magnitudes are judged at p = 0 only
				return
			}
			v := (k + f) / scale
			if neg {
				v = -v
			}
			w := -v / 3
			got := clipper.ScalePathDToPath64(PathD{{X: v, Y: w}}, scale)
			gots := clipper.ScalePathsDToPaths64(PathsD{{{X: v, Y: w}}}, scale)
			sr := clipper.ScaleRectD(clipper.NewRectD(v, w, v, w), scale)
			rect := sr.AsPath()
			c.Exec(3)
			xl, xh := quantRef(v, p)
			yl, yh := quantRef(w, p)
			okv := func(g, lo, hi int64) bool { return g == lo || g == hi }
			if !okv(got[0].X, xl, xh) || !okv(got[0].Y, yl, yh) || got[0] != gots[0][0] {
				c.Fail("quantise", "ScalePathDToPath64", "ScalePathDToPath64((%v,%v), 10^%d)=%v (Paths variant %v); exact products round to x in [%d,%d], y in [%d,%d]", v, w, p, got[0], gots[0][0], xl, xh, yl, yh)
			}
			if rect[0] != got[0] {
				c.Fail("quantise-rect", "ScaleRectD", "ScaleRectD(left=%v top=%v, 10^%d) gives (%d,%d) but the same values as path coordinates quantise to %v: rectangle bounds must be quantised like path coordinates", v, w, p, rect[0].X, rect[0].Y, got[0])
			}
			if !okv(rect[0].X, xl, xh) || !okv(rect[0].Y, yl, yh) {
				c.Fail("quantise-rect", "ScaleRectD", "ScaleRectD(left=%v top=%v, 10^%d) gives (%d,%d); path coordinates with the same values quantise to x in [%d,%d], y in [%d,%d]", v, w, p, rect[0].X, rect[0].Y, xl, xh, yl, yh)
			}
			back := clipper.ScalePath64ToPathD(Path{{X: xh, Y: yh}}, 1/scale)
			c.Exec(1)
			if !within1ulp(back[0].X, unscaleRef(xh, p)) || !within1ulp(back[0].Y, unscaleRef(yh, p)) {
				c.Fail("unscale", "ScalePath64ToPathD", "ScalePath64ToPathD((%d,%d), 10^-%d)=%v, exact (%v,%v)", xh, yh, p, back[0], unscaleRef(xh, p), unscaleRef(yh, p))
			}
			c.Nontriv()
		}}
}

func init() {
	drv.Register(&drv.Check{
		ID:    "C07",
		Title: "Floating-point API equals the integer API on quantised input",
		Rule: "every D entry point (BooleanOpPathsD + 5 wrappers, ClipperD.ExecuteOC with an open subject, BooleanOpPolyTreeD, InflatePathsD (4 join/end configurations with delta and arc tolerance), MinkowskiSumD/DiffD closed and open, RectClipPathsD/PathD, RectClipLinesPathsD/PathD (two rectangles: one between the lattice lines, one whose bounds are less than a quantum inside them), TrimCollinearD closed and open) x precision -8..8 and default-omitted x all subject triangles of P(3,3) x every k-th clip triangle x fraction patterns (float = (10c+f)/10^p, f in {0, +-.25, +-.4, .6}: quantisation really rounds and is never near a tie); " +
			"oracle: exact big.Rat quantiser and unscaler; the D result must have the structure of the 64-bit counterpart on the quantised input with scalars x 10^p and every coordinate within 1 ulp; tree polygons identical and tree scale = 10^p. Separately: the quantiser helpers on {k+f} incl. exact ties (either neighbour accepted) and ScaleRectD; precisions -100,-10,-9,9,10,100 on all 14 D entry points must panic with ErrPrecisionRange and nothing else. non-trivial = case with a non-empty boolean result",
		Assumptions:      []string{"finite float alphabet (no denormals, no values whose product with 10^p is within 0.1 of a rounding tie in the main scope)", "64-bit counterparts are trusted here: their own meaning is decided by the other checks"},
		RequiredCounters: []string{"cases_with_nonempty_boolean_result", "out_of_range_precisions_tried"},
		Scopes: func(tier string) []*drv.Scope {
			return []*drv.Scope{c07RangeScope(), c07HelperScope(), c07UnscaleScope(), c07Scope(tier)}
		},
	})
}
