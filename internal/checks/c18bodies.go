package checks

import (
	"fmt"
	"math"

	clipper "github.com/bolom009/go-clipper2"
)

// The C18 harness bodies: a 23-call alphabet over shared, read-only inputs and
// distinct engine objects. The same bodies run (a) under the cooperative
// scheduler of the schedule explorer and (b) free-running under the race detector.

var (
	c18S = Paths{{{0, 0}, {60, 10}, {20, 50}, {35, -15}, {55, 45}}, {{10, 10}, {50, 15}, {45, 40}, {12, 36}}}
	c18C = Paths{{{5, 30}, {65, 25}, {30, -5}}, {{25, 5}, {40, 30}, {15, 28}}}
	c18L = Paths{{{-10, 20}, {70, 22}}, {{5, -10}, {35, 60}, {60, -10}}}
)

var c18Calls = []struct {
	name string
	f    func() string
}{
	{"BooleanOpPaths64(Intersection,NonZero)", func() string {
		return fmt.Sprint(clipper.BooleanOpPaths64(clipper.Intersection, c18S, c18C, clipper.NonZero))
	}},
	{"BooleanOpPaths64(Xor,EvenOdd)", func() string { return fmt.Sprint(clipper.BooleanOpPaths64(clipper.Xor, c18S, c18C, clipper.EvenOdd)) }},
	{"BooleanOpPolyTree64(Union,NonZero)", func() string {
		return canonTree(clipper.BooleanOpPolyTree64(clipper.Union, c18S, c18C, clipper.NonZero).PolyPathBase)
	}},
	{"InflatePaths64(5,Round,Polygon,arc .5)", func() string {
		return fmt.Sprint(clipper.InflatePaths64(c18S, 5, clipper.Round, clipper.Polygon, clipper.WithArcTolerance(0.5)))
	}},
	{"InflatePaths64(12,Round,Polygon,arc .25)", func() string {
		return fmt.Sprint(clipper.InflatePaths64(c18S, 12, clipper.Round, clipper.Polygon, clipper.WithArcTolerance(0.25)))
	}},
	{"InflatePaths64(open,4,Miter,RoundET,arc .3)", func() string {
		return fmt.Sprint(clipper.InflatePaths64(c18L, 4, clipper.Miter, clipper.RoundET, clipper.WithArcTolerance(0.3)))
	}},
	{"RectClipPaths64", func() string { return fmt.Sprint(clipper.RectClipPaths64(clipper.NewRect64(15, 5, 50, 35), c18S)) }},
	{"RectClipLinesPaths64", func() string { return fmt.Sprint(clipper.RectClipLinesPaths64(clipper.NewRect64(15, 5, 50, 35), c18L)) }},
	// a second and a third rectangle: anything remembered per rectangle between calls is shared state
	{"RectClipPaths64(other rectangle)+RectClipLinesPathsD(third rectangle)", func() string {
		return fmt.Sprint(clipper.RectClipPaths64(clipper.NewRect64(8, -5, 42, 30), c18S), clipper.RectClipLinesPathsD(clipper.NewRectD(20, 12, 58, 44), clipper.Paths64ToPathsD(c18L), 1))
	}},
	{"MinkowskiSum64", func() string { return fmt.Sprint(clipper.MinkowskiSum64(c18C[1], c18S[1], true)) }},
	{"MinkowskiDiff64", func() string { return fmt.Sprint(clipper.MinkowskiDiff64(c18C[1], c18S[1], true)) }},
	{"MinkowskiDiff64(open path)+MinkowskiSumD", func() string {
		return fmt.Sprint(clipper.MinkowskiDiff64(c18C[1], c18L[1], false), clipper.MinkowskiSumD(clipper.Path64ToPathD(c18C[1]), clipper.Path64ToPathD(c18L[0]), false, 1))
	}},
	{"SimplifyPaths64", func() string { return fmt.Sprint(clipper.SimplifyPaths64(c18S, 6, true)) }},
	{"TrimCollinear64+Area64+PointInPolygon", func() string {
		return fmt.Sprint(clipper.TrimCollinear64(c18S[0], false), clipper.Area64(c18S[1]), clipper.PointInPolygon(Pt{X: 30, Y: 20}, c18S[1]), clipper.GetBounds64(c18C[0]))
	}},
	{"ClipperD(2).Execute(Difference,NonZero)", func() string {
		e := clipper.NewClipperD(2)
		e.AddPaths(clipper.Paths64ToPathsD(c18S), clipper.Subject, false)
		e.AddPaths(clipper.Paths64ToPathsD(c18L), clipper.Subject, true)
		e.AddPaths(clipper.Paths64ToPathsD(c18C), clipper.Clip, false)
		var a, b clipper.PathsD
		e.ExecuteOC(clipper.Difference, clipper.NonZero, &a, &b)
		return fmt.Sprint(a, b)
	}},
	{"BooleanOpPathsD(Union,Positive)", func() string {
		return fmt.Sprint(clipper.BooleanOpPathsD(clipper.Union, clipper.Paths64ToPathsD(c18S), clipper.Paths64ToPathsD(c18C), clipper.Positive, 1))
	}},
	{"ClipperOffset(two groups, two executions)", func() string {
		co := clipper.NewClipperOffset(2, 0.4, false, false)
		co.AddPaths(c18C, clipper.Round, clipper.Polygon)
		co.AddPaths(c18L, clipper.Square, clipper.Butt)
		var s1, s2 Paths
		co.Execute64(3, &s1)
		co.Execute64(-2, &s2)
		return fmt.Sprint(s1, s2)
	}},
	// touching figures: a hole with two corners on its outer polygon's edges sends the tree builder's containment
	// test down its rarely taken tie-break path
	{"BooleanOpPolyTree64(Difference, touching triangle A)", func() string {
		return canonTree(clipper.BooleanOpPolyTree64(clipper.Difference, Paths{{{0, 0}, {60, 0}, {0, 60}}}, Paths{{{20, 0}, {15, 15}, {0, 20}}}, clipper.NonZero).PolyPathBase)
	}},
	{"BooleanOpPolyTree64(Difference, touching triangle B)+Path2ContainsPath1", func() string {
		t := clipper.BooleanOpPolyTree64(clipper.Difference, Paths{{{0, 0}, {80, 0}, {80, 80}, {0, 80}}}, Paths{{{80, 30}, {50, 40}, {80, 50}}, {{30, 0}, {40, 25}, {50, 0}}}, clipper.EvenOdd)
		in := clipper.Path2ContainsPath1(Path{{X: 20, Y: 0}, {X: 15, Y: 15}, {X: 0, Y: 20}}, Path{{X: 0, Y: 0}, {X: 60, Y: 0}, {X: 0, Y: 60}})
		out := clipper.Path2ContainsPath1(Path{{X: 20, Y: 0}, {X: 40, Y: 0}, {X: 30, Y: -20}}, Path{{X: 0, Y: 0}, {X: 60, Y: 0}, {X: 0, Y: 60}})
		return fmt.Sprint(canonTree(t.PolyPathBase), in, out)
	}},
	// long paths (300 vertices): per-call scratch memory of a size that tempts pooling
	{"SimplifyPath64(300-vertex star, nothing removable)", func() string {
		return fmt.Sprint(len(clipper.SimplifyPath64(c18Star, 1, true)), clipper.SimplifyPath64(c18Star, 1, true)[:6])
	}},
	{"SimplifyPath64(300-vertex noisy circle, most removable)", func() string {
		r := clipper.SimplifyPath64(c18Noisy, 40, true)
		return fmt.Sprint(len(r), r)
	}},
	{"ClipperOffset(delta callback 3, Round, arc .25)", func() string { return c18Callback(3, 0.25) }},
	{"ClipperOffset(delta callback 7, Round, arc .5)", func() string { return c18Callback(7, 0.5) }},
}

// c18Callback: the variable-offset route (delta callback installed), round joins
func c18Callback(d, arc float64) string {
	co := clipper.NewClipperOffset(2, arc, false, false)
	var cb clipper.DeltaCallbackFunc = func(*clipper.Path64, *clipper.PathD, uint8, uint8) float64 { return d }
	co.SetDeltaCallback(&cb)
	co.AddPaths(c18S, clipper.Round, clipper.Polygon)
	var s Paths
	co.Execute64(1, &s)
	return fmt.Sprint(s)
}

// c18Star: 300 vertices alternating between radius 1000 and 1400 (every vertex far from its neighbours' chord);
// c18Noisy: 300 vertices within a few units of a circle of radius 1000
var c18Star, c18Noisy = func() (Path, Path) {
	var a, b Path
	for i := 0; i < 300; i++ {
		t := 2 * 3.141592653589793 * float64(i) / 300
		r := 1000.0
		if i%2 == 1 {
			r = 1400
		}
		a = append(a, Pt{X: int64(r * cosf(t)), Y: int64(r * sinf(t))})
		b = append(b, Pt{X: int64(1000*cosf(t)) + int64(i*7%5), Y: int64(1000*sinf(t)) - int64(i*3%4)})
	}
	return a, b
}()

func c18Snapshot() string { return fmt.Sprint(c18S, c18C, c18L, c18Star, c18Noisy) }

func cosf(t float64) float64 { return math.Cos(t) }
func sinf(t float64) float64 { return math.Sin(t) }
