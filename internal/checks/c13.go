package checks

import (
	"fmt"
	"math"
	"math/big"
	"math/bits"

	clipper "github.com/bolom009/go-clipper2"

	"verif/internal/drv"
	"verif/internal/enum"
	"verif/internal/oracle"
)

// ---- exact 128-bit arithmetic on int64 operands ----------------------------------

// cmpProd returns the sign of a*b - c*d, exactly.
func cmpProd(a, b, c, d int64) int {
	s1, h1, l1 := mulAbs(a, b)
	s2, h2, l2 := mulAbs(c, d)
	if s1 != s2 {
		if s1 > s2 {
			return 1
		}
		return -1
	}
	if s1 == 0 {
		return 0
	}
	r := 0
	if h1 != h2 {
		if h1 > h2 {
			r = 1
		} else {
			r = -1
		}
	} else if l1 != l2 {
		if l1 > l2 {
			r = 1
		} else {
			r = -1
		}
	}
	return r * s1
}

func mulAbs(a, b int64) (sign int, hi, lo uint64) {
	if a == 0 || b == 0 {
		return 0, 0, 0
	}
	sign = 1
	ua, ub := uint64(a), uint64(b)
	if a < 0 {
		ua = uint64(-a)
		sign = -sign
	}
	if b < 0 {
		ub = uint64(-b)
		sign = -sign
	}
	hi, lo = bits.Mul64(ua, ub)
	return
}

// windExact: exact winding number of (px,py) w.r.t. closed paths with coordinates up to 2^61.
func windExact(ps Paths, px, py int64) (w int, on bool) {
	for _, p := range ps {
		n := len(p)
		for e := 0; e < n; e++ {
			a, b := p[e], p[(e+1)%n]
			// cr = (bx-ax)*(py-ay) - (by-ay)*(px-ax)
			cr := cmpProd(b.X-a.X, py-a.Y, b.Y-a.Y, px-a.X)
			if cr == 0 && px >= min(a.X, b.X) && px <= max(a.X, b.X) && py >= min(a.Y, b.Y) && py <= max(a.Y, b.Y) {
				on = true
			}
			if a.Y <= py && b.Y > py {
				if cr > 0 {
					w++
				}
			} else if b.Y <= py && a.Y > py {
				if cr < 0 {
					w--
				}
			}
		}
	}
	return w, on
}

// ---- coordinate transformations ---------------------------------------------------

type c13Xf struct {
	name   string
	k      int64 // scale factor (1 = none)
	tx, ty int64
}

func (x c13Xf) pt(p Pt) Pt { return Pt{X: p.X*x.k + x.tx, Y: p.Y*x.k + x.ty} }

func (x c13Xf) paths(ps Paths) Paths {
	if ps == nil {
		return nil
	}
	out := make(Paths, len(ps))
	for i, p := range ps {
		out[i] = make(Path, len(p))
		for j, q := range p {
			out[i][j] = x.pt(q)
		}
	}
	return out
}

var c13Translations = []c13Xf{
	{"translate(2^31,0)", 1, 1 << 31, 0},
	{"translate(0,-2^40)", 1, 0, -(1 << 40)},
	{"translate(2^52-64,2^52-64)", 1, (1 << 52) - 64, (1 << 52) - 64},
	{"translate(-2^52,2^51+1)", 1, -(1 << 52), (1 << 51) + 1},
}

var c13Scales = []c13Xf{
	{"scale 2^10", 1 << 10, 0, 0},
	{"scale 2^20+1", (1 << 20) + 1, 0, 0},
	{"scale 2^28", 1 << 28, 0, 0},
	{"scale 2^31", 1 << 31, 0, 0},
	{"scale 2^40", 1 << 40, 0, 0},
	{"scale 3*2^50", 3 << 50, 0, 0},
	{"scale 2^56", 1 << 56, 0, 0},
	{"scale 2^55+1", (1 << 55) + 1, 0, 0}, // products of coordinate differences are not representable in float64
}

// c13Centred: scalings followed by the translation that puts the middle of the base lattice (cx,cy) at the
// origin, so coordinates of both signs occur and a polygon can fill the box [-m,m]^2 (area 4m^2 with every
// coordinate below m: the case in which 'all coordinates are small' does not bound the area).
func c13Centred(cx, cy int64) []c13Xf {
	var out []c13Xf
	for _, k := range []struct {
		n string
		k int64
	}{{"2^27", 1 << 27}, {"214748364 (10k < 2^31)", 214748364}, {"2^31+7", 1<<31 + 7}, {"2^40", 1 << 40}, {"2^55+1", 1<<55 + 1}} {
		out = append(out, c13Xf{"scale " + k.n + " centred on the origin", k.k, -cx * k.k, -cy * k.k})
	}
	return out
}

// base witnesses: integer lattice points over the input bounds, > 2 units from every base edge
type c13Wit struct {
	p      Pt
	ws, wc int
}

func c13Witnesses(S, C Paths, pitch int64) []c13Wit {
	minX, minY, maxX, maxY, ok := oracle.Bounds(S, C)
	if !ok {
		return nil
	}
	var out []c13Wit
	g := oracle.Grid{S: 1}
	for y := minY - 3; y <= maxY+3; y += pitch {
		for x := minX - 3; x <= maxX+3; x += pitch {
			if !g.FarFromEdges(x, y, 2, true, S, C) {
				continue
			}
			ws, _ := windExact(S, x, y)
			wc, _ := windExact(C, x, y)
			out = append(out, c13Wit{Pt{X: x, Y: y}, ws, wc})
		}
	}
	return out
}

func c13BoolScope(tier string, e enum.Embed) *drv.Scope {
	nS := enum.PathCount(3, 3)
	// strides coprime to 9: a multiple of 9 would pin the leading vertices of every selected clip to lattice point 0
	stride := uint64(37)
	if tier == "thorough" {
		stride = 7
	}
	nC := (nS + stride - 1) / stride
	cen := e.F(1, 1)
	xfs := append(append(append([]c13Xf{}, c13Translations...), c13Scales...), c13Centred(cen.X, cen.Y)...)
	var sb, cb Path
	return &drv.Scope{Name: fmt.Sprintf("magnitude/boolean/P(3,3) x every %d-th of P(3,3)/%s x 4 translations + 8 scalings + 5 centred scalings", stride, e.Name), Level: 2, Size: nS * nC,
		Show: func(idx uint64) any {
			return map[string]any{"subject": pathLit(enum.UnrankPath(idx%nS, 3, 3, e, nil)), "clip": pathLit(enum.UnrankPath(idx/nS*stride, 3, 3, e, nil)), "transformations": "translations by (2^31,0), (0,-2^40), (2^52-64,2^52-64), (-2^52,2^51+1); scalings by 2^10, 2^20+1, 2^28, 2^31, 2^40, 3*2^50, 2^56, 2^55+1; scalings by 2^27, 214748364, 2^31+7, 2^40, 2^55+1 centred on the origin"}
		},
		Run: func(c *drv.Ctx, idx uint64) {
			sb = enum.UnrankPath(idx%nS, 3, 3, e, sb)
			cb = enum.UnrankPath(idx/nS*stride, 3, 3, e, cb)
			S, C := Paths{sb}, Paths{cb}
			wit := c13Witnesses(S, C, 1)
			if len(wit) == 0 {
				return
			}
			nt := false
			for ci := 0; ci < 4; ci++ {
				// a rotating subset of 4 of the 16 configurations per input keeps the cost flat; all 16 occur over the scope
				ct := allClipTypes[(int(idx)+ci)%4]
				fr := allFillRules[(int(idx/4)+ci)%4]
				any := false
				for _, w := range wit {
					if oracle.Op(ct, oracle.Fill(fr, int16(w.ws)), oracle.Fill(fr, int16(w.wc))) {
						any = true
					}
				}
				for _, xf := range xfs {
					sol := clipper.BooleanOpPaths64(ct, xf.paths(S), xf.paths(C), fr)
					c.Exec(1)
					c.Output(enum.HashPaths(sol))
					for _, w := range wit {
						want := oracle.Op(ct, oracle.Fill(fr, int16(w.ws)), oracle.Fill(fr, int16(w.wc)))
						tp := xf.pt(w.p)
						got, on := windExact(sol, tp.X, tp.Y)
						if on {
							continue
						}
						if (got != 0) != want {
							c.Fail("boolean", xf.name+" "+cfgName(ct, fr), "%s, %s: base point %v (winding subject=%d clip=%d, > 2 units from every base edge) maps to %v where the solution of the transformed input has winding %d, expected inside=%v; base subject %v clip %v; transformed solution %v",
								xf.name, cfgName(ct, fr), w.p, w.ws, w.wc, tp, got, want, S, C, sol)
							break
						}
					}
				}
				if any {
					nt = true
				}
			}
			if nt {
				c.Nontriv()
				c.Count("boolean_inputs_with_nonempty_expected_region", 1)
			}
		}}
}

func bigArea2(p Path) *big.Int { return oracle.Area2(p) }

func c13UnaryScope(n int, e enum.Embed) *drv.Scope {
	cen := e.F(1, 1)
	xfs := append(append(append([]c13Xf{}, c13Translations...), c13Scales...), c13Centred(cen.X, cen.Y)...)
	var buf Path
	return &drv.Scope{Name: fmt.Sprintf("magnitude/Area64+PointInPolygon+SimplifyPath64/P(3,%d)/%s", n, e.Name), Level: 1, Size: enum.PathCount(3, n),
		Show: func(idx uint64) any { return pathLit(enum.UnrankPath(idx, 3, n, e, nil)) },
		Run: func(c *drv.Ctx, idx uint64) {
			buf = enum.UnrankPath(idx, 3, n, e, buf)
			base := enum.ClonePath(buf)
			a2 := bigArea2(base)
			flat := true
			for _, q := range base {
				if q.Y != base[0].Y {
					flat = false
				}
			}
			simp0 := clipper.SimplifyPath64(base, 0, true)
			simp1 := clipper.SimplifyPath64(base, 1.5, false)
			for _, xf := range xfs {
				tp := xf.paths(Paths{base})[0]
				// Area64: translation keeps the area, scaling multiplies it by k^2 (exact value rounded once)
				want := new(big.Float).SetPrec(300).SetInt(new(big.Int).Mul(a2, new(big.Int).Mul(big.NewInt(xf.k), big.NewInt(xf.k))))
				want.Quo(want, big.NewFloat(2))
				wf, _ := want.Float64()
				got := clipper.Area64(tp)
				c.Exec(1)
				if !within1ulp(got, wf) {
					c.Fail("Area64", xf.name, "%s: Area64(%v)=%v, exact %v (base path %v, 2*area %v)", xf.name, tp, got, wf, base, a2)
				}
				// PointInPolygon at every transformed lattice point
				if !flat {
					for y := int64(-1); y <= 3; y++ {
						for x := int64(-1); x <= 3; x++ {
							bp := e.F(x, y)
							wantP := oracle.PointInPolygonRef(bp, base)
							gotP := int(clipper.PointInPolygon(xf.pt(bp), tp))
							c.Exec(1)
							if gotP != wantP {
								c.Fail("PointInPolygon", xf.name, "%s: PointInPolygon(%v, %v)=%s, exact answer for the base point %v and path %v is %s", xf.name, xf.pt(bp), tp, pipName(gotP), bp, base, pipName(wantP))
								break
							}
						}
					}
				}
				// SimplifyPath64: same retained vertices
				if n >= 4 && (xf.k == 1 || xf.k <= 1<<31) {
					g0 := clipper.SimplifyPath64(tp, 0, true)
					g1 := clipper.SimplifyPath64(tp, 1.5*float64(xf.k), false)
					c.Exec(2)
					if !enum.EqualPath(g0, xf.paths(Paths{simp0})[0]) {
						c.Fail("SimplifyPath64", xf.name, "%s: SimplifyPath64(eps 0, closed) keeps %v, the base run keeps %v (transformed: %v)", xf.name, g0, simp0, xf.paths(Paths{simp0})[0])
					}
					if !enum.EqualPath(g1, xf.paths(Paths{simp1})[0]) {
						c.Fail("SimplifyPath64", xf.name, "%s: SimplifyPath64(eps 1.5*k, open) keeps %v, the base run keeps %v (transformed: %v)", xf.name, g1, simp1, xf.paths(Paths{simp1})[0])
					}
				}
			}
			if a2.Sign() != 0 {
				c.Nontriv()
				c.Count("unary_paths_with_area", 1)
			}
		}}
}

// c13RectCheck: one base path set and rectangle under every transformation of xfs.
func c13RectCheck(c *drv.Ctx, base Paths, r [4]int64, xfs []c13Xf) {
	// base witnesses: integer points; deep inside the rectangle and far from input edges, or far outside
	type wt struct {
		p    Pt
		want int
	}
	var wit []wt
	g := oracle.Grid{S: 1}
	for y := int64(-3); y <= 43; y += 2 {
		for x := int64(-3); x <= 43; x += 2 {
			inside := x > r[0]+2 && x < r[2]-2 && y > r[1]+2 && y < r[3]-2
			outside := x < r[0]-2 || x > r[2]+2 || y < r[1]-2 || y > r[3]+2
			if inside && g.FarFromEdges(x, y, 2, true, base) {
				w, _ := windExact(base, x, y)
				wit = append(wit, wt{Pt{X: x, Y: y}, w})
			} else if outside {
				wit = append(wit, wt{Pt{X: x, Y: y}, 0})
			}
		}
	}
	for _, xf := range xfs {
		a, b := xf.pt(Pt{X: r[0], Y: r[1]}), xf.pt(Pt{X: r[2], Y: r[3]})
		out := clipper.RectClipPaths64(clipper.NewRect64(a.X, a.Y, b.X, b.Y), xf.paths(base))
		c.Exec(1)
		for _, w := range wit {
			tp := xf.pt(w.p)
			got, on := windExact(out, tp.X, tp.Y)
			if on {
				continue
			}
			if got != w.want {
				c.Fail("RectClipPaths64", xf.name, "%s: base point %v maps to %v where the clipped transformed path has winding %d, expected %d; base path %v rect %v; result %v", xf.name, w.p, tp, got, w.want, base, r, out)
				break
			}
		}
	}
	c13RectLines(c, base, r, xfs)
}

// c13RectLines: the same paths read as open polylines through RectClipLinesPaths64. The clipper's decisions are
// comparisons with the rectangle's bounds and signs of cross products, so under an exact affine map (uniform integer
// scale + translation, rectangle mapped too) the result must have the same pieces with the same vertex counts; a
// vertex that is an input vertex must map exactly (translations; within the tolerance for scalings: beyond 2^53 the
// clipper's float64 steps move even input vertices by a few units), a computed crossing within k+tolerance of the image of the base crossing
// (the base one was rounded by up to half a unit), inside the mapped rectangle and on the line through a mapped input
// segment (exact big-integer test) within 1 unit for translations, 2 units + 2^-40 of the extent for scalings.
func c13RectLines(c *drv.Ctx, base Paths, r [4]int64, xfs []c13Xf) {
	b0 := clipper.RectClipLinesPaths64(clipper.NewRect64(r[0], r[1], r[2], r[3]), base)
	c.Exec(1)
	isInput := func(v Pt) bool {
		for _, p := range base {
			for _, q := range p {
				if q == v {
					return true
				}
			}
		}
		return false
	}
	abs := func(a int64) int64 {
		if a < 0 {
			return -a
		}
		return a
	}
	for _, xf := range xfs {
		a, b := xf.pt(Pt{X: r[0], Y: r[1]}), xf.pt(Pt{X: r[2], Y: r[3]})
		tin := xf.paths(base)
		out := clipper.RectClipLinesPaths64(clipper.NewRect64(a.X, a.Y, b.X, b.Y), tin)
		c.Exec(1)
		// tolerance: one unit under translation (C11's bound); under scaling the property allows 2 units plus 2^-40 of the extent
		tol := int64(1)
		if xf.k != 1 {
			lo, hi := min(a.X, a.Y), max(b.X, b.Y)
			for _, p := range tin {
				for _, q := range p {
					lo, hi = min(lo, q.X, q.Y), max(hi, q.X, q.Y)
				}
			}
			tol = 2 + (hi-lo)>>40
		}
		bad := ""
		if len(out) != len(b0) {
			bad = fmt.Sprintf("%d pieces, the base run has %d", len(out), len(b0))
		}
		for i := 0; bad == "" && i < len(out); i++ {
			if len(out[i]) != len(b0[i]) {
				bad = fmt.Sprintf("piece %d has %d vertices, the base run's has %d", i, len(out[i]), len(b0[i]))
				break
			}
			for j, v := range out[i] {
				w := xf.pt(b0[i][j])
				if isInput(b0[i][j]) && (xf.k == 1 && v != w || abs(v.X-w.X) > tol || abs(v.Y-w.Y) > tol) {
					bad = fmt.Sprintf("piece %d vertex %d is %v, the image of the input vertex %v is %v", i, j, v, b0[i][j], w)
				} else if abs(v.X-w.X) > xf.k+tol || abs(v.Y-w.Y) > xf.k+tol {
					bad = fmt.Sprintf("piece %d vertex %d is %v, the image of the base crossing %v is %v (more than k+tolerance away)", i, j, v, b0[i][j], w)
				} else if v.X < a.X-tol || v.X > b.X+tol || v.Y < a.Y-tol || v.Y > b.Y+tol {
					bad = fmt.Sprintf("piece %d vertex %d = %v is more than %d unit(s) outside the rectangle", i, j, v, tol)
				} else if !c13NearSomeLine(v, tin, tol) {
					bad = fmt.Sprintf("piece %d vertex %d = %v is more than %d unit(s) from the line through every input segment", i, j, v, tol)
				}
				if bad != "" {
					break
				}
			}
		}
		if bad != "" {
			c.Fail("RectClipLinesPaths64", xf.name, "%s: RectClipLinesPaths64(rect %v-%v, %v): %s; result %v; base polyline %v rect %v gives %v", xf.name, a, b, tin, bad, out, base, r, b0)
		}
	}
}

// c13NearSomeLine: v within tol units of the line through some segment of ps (cross^2 <= tol^2 |d|^2, exact).
func c13NearSomeLine(v Pt, ps Paths, tol int64) bool {
	var cr, d2, t big.Int
	tol2 := new(big.Int).Mul(big.NewInt(tol), big.NewInt(tol))
	for _, p := range ps {
		for i := 0; i+1 < len(p); i++ {
			p0, p1 := p[i], p[i+1]
			dx, dy := big.NewInt(p1.X-p0.X), big.NewInt(p1.Y-p0.Y)
			if dx.Sign() == 0 && dy.Sign() == 0 {
				if v == p0 {
					return true
				}
				continue
			}
			cr.Mul(dx, big.NewInt(v.Y-p0.Y))
			t.Mul(dy, big.NewInt(v.X-p0.X))
			cr.Sub(&cr, &t)
			cr.Mul(&cr, &cr)
			d2.Mul(dx, dx)
			t.Mul(dy, dy)
			d2.Add(&d2, &t)
			d2.Mul(&d2, tol2)
			if cr.Cmp(&d2) <= 0 {
				return true
			}
		}
	}
	return false
}

func c13RectScope(n int) *drv.Scope {
	l := rcR5
	xfs := append(append([]c13Xf{}, c13Translations...), c13Scales...)
	var buf Path
	return &drv.Scope{Name: fmt.Sprintf("magnitude/RectClipPaths64/P(R5,%d)", n), Level: 2, Size: l.count(n),
		Show: func(idx uint64) any { return map[string]any{"path": pathLit(l.path(idx, n, nil)), "rect": l.rect} },
		Run: func(c *drv.Ctx, idx uint64) {
			buf = l.path(idx, n, buf)
			base := Paths{enum.ClonePath(buf)}
			r := l.rect
			c13RectCheck(c, base, r, xfs)
			if rcCrosses(r, buf) {
				c.Nontriv()
				c.Count("rect_paths_crossing", 1)
			}
		}}
}

// c13RectRoundScope: closed paths that go round the rectangle (10,10,30,30) without touching it - a ring, a double
// ring, U shapes with the rectangle in the notch (winding 0) in four rotations - from every start vertex and in
// both directions: the only inputs for which the clipper has to decide "how often does the path wind round me".
func c13RectRoundScope() *drv.Scope {
	ring := Path{{X: 0, Y: 0}, {X: 40, Y: 0}, {X: 40, Y: 40}, {X: 0, Y: 40}}
	u := Path{{X: 0, Y: 0}, {X: 40, Y: 0}, {X: 40, Y: 40}, {X: 35, Y: 40}, {X: 35, Y: 5}, {X: 5, Y: 5}, {X: 5, Y: 40}, {X: 0, Y: 40}}
	rot := func(p Path) Path {
		q := make(Path, len(p))
		for i, v := range p {
			q[i] = Pt{X: 40 - v.Y, Y: v.X}
		}
		return q
	}
	bases := []Path{ring, append(append(Path{}, ring...), ring...)}
	for k, q := 0, u; k < 4; k++ {
		bases = append(bases, q)
		q = rot(q)
	}
	var all []Path
	for _, b := range bases {
		for st := range b {
			f := append(append(Path{}, b[st:]...), b[:st]...)
			all = append(all, f, clipper.ReversePath(enum.ClonePath(f)))
		}
	}
	xfs := append(append(append([]c13Xf{}, c13Translations...), c13Scales...), c13Centred(20, 20)...)
	xfs = append(xfs, c13Xf{"scale 2^55+987654321", 1<<55 + 987654321, 0, 0}, c13Xf{"scale 2^32+12345 centred on the origin", 1<<32 + 12345, -20 * (1<<32 + 12345), -20 * (1<<32 + 12345)})
	return &drv.Scope{Name: "magnitude/RectClipPaths64/paths round the rectangle (rings, double rings, U shapes)", Level: 2, Size: uint64(len(all)),
		Show: func(idx uint64) any {
			return map[string]any{"path": pathLit(all[idx]), "rect": [4]int64{10, 10, 30, 30}}
		},
		Run: func(c *drv.Ctx, idx uint64) {
			c13RectCheck(c, Paths{all[idx]}, [4]int64{10, 10, 30, 30}, xfs)
			c.Nontriv()
		}}
}

func c13InflateScope() *drv.Scope {
	f := famSimple(enum.Eax20, 4, 3)
	cfgs := []offCfg{{2.5, clipper.Miter, 2, 0}, {-2.5, clipper.Square, 2, 0}, {7, clipper.Round, 2, 0.25}, {-7, clipper.Bevel, 2, 0}, {12, clipper.Square, 2, 0}, {12, clipper.Miter, 1.2, 0}}
	return &drv.Scope{Name: "magnitude/InflatePaths64 (translations)/" + f.name, Level: 2, Size: f.size,
		Show: func(idx uint64) any {
			gs, ok := f.gen(idx)
			if !ok {
				return "not simple (skipped)"
			}
			return pathsLit(gs[0])
		},
		Run: func(c *drv.Ctx, idx uint64) {
			gs, ok := f.gen(idx)
			if !ok {
				return
			}
			in := gs[0]
			for _, cfg := range cfgs {
				base := clipper.InflatePaths64(in, cfg.delta, cfg.jt, clipper.Polygon, clipper.WithArcTolerance(cfg.arc))
				c.Exec(1)
				minX, minY, maxX, maxY, ok := oracle.Bounds(in, base)
				if !ok {
					continue
				}
				g := oracle.Grid{S: 1}
				for _, xf := range c13Translations {
					out := clipper.InflatePaths64(xf.paths(in), cfg.delta, cfg.jt, clipper.Polygon, clipper.WithArcTolerance(cfg.arc))
					c.Exec(1)
					back := c13Xf{k: 1, tx: -xf.tx, ty: -xf.ty}.paths(out) // exact: translations are integers
					bad := false
					for y := minY - 3; y <= maxY+3 && !bad; y += 2 {
						for x := minX - 3; x <= maxX+3; x += 2 {
							// the translated result may move by the rounding band: compare away from the edges of both results
							if !g.FarFromEdges(x, y, 3, true, base, back) {
								continue
							}
							wb, _ := windExact(base, x, y)
							tp := xf.pt(Pt{X: x, Y: y})
							wt, on := windExact(out, tp.X, tp.Y)
							if on {
								continue
							}
							if (wb != 0) != (wt != 0) {
								c.Fail("InflatePaths64", xf.name, "%s, %s: base point (%d,%d) is inside the base result=%v but its image %v is inside the translated result=%v; input %v base result %v translated result %v", xf.name, cfg.String(), x, y, wb != 0, tp, wt != 0, in, base, out)
								bad = true
								break
							}
						}
					}
				}
			}
			c.Nontriv()
			c.Count("inflate_polygons", 1)
		}}
}

// c13PrimScope: the three geometric primitives of the sweep (through the verif hooks) on every quadruple of the
// sheared 3x3 lattice under every scaling of the magnitude grid, against exact rational arithmetic. The results
// are integers computed through float64, so the tolerance is 1 unit + 2^-40 of the extent, as in the statement.
func c13PrimScope() *drv.Scope {
	e := enum.Esh
	cen := e.F(1, 1)
	xfs := append(append([]c13Xf{{"identity", 1, 0, 0}}, c13Scales...), c13Centred(cen.X, cen.Y)...)
	nX := uint64(len(xfs))
	lat := func(d uint64) Pt { return e.F(int64(d%3), int64(d/3)) }
	rat := func(v int64) *big.Rat { return new(big.Rat).SetInt64(v) }
	within := func(got int64, want *big.Rat, tol *big.Rat) bool {
		d := new(big.Rat).Sub(rat(got), want)
		d.Abs(d)
		return d.Cmp(tol) <= 0
	}
	crossSign := func(a, b, c Pt) int { return cmpProd(b.X-a.X, c.Y-b.Y, b.Y-a.Y, c.X-b.X) }
	return &drv.Scope{Name: "magnitude/sweep primitives (closest point, segment intersection point, segments intersect)/quadruples of the sheared 3x3 lattice", Level: 1, Size: 6561 * nX,
		Show: func(idx uint64) any {
			q := idx % 6561
			return map[string]any{"points": pathLit(Path{lat(q % 9), lat(q / 9 % 9), lat(q / 81 % 9), lat(q / 729)}), "transformation": xfs[idx/6561].name}
		},
		Run: func(c *drv.Ctx, idx uint64) {
			q, xf := idx%6561, xfs[idx/6561]
			c13Prim(c, xf, xf.pt(lat(q%9)), xf.pt(lat(q/9%9)), xf.pt(lat(q/81%9)), xf.pt(lat(q/729)), rat, within, crossSign)
			// the same quadruple with the first point one unit off its lattice position after scaling: exactly
			// collinear triples become triples whose cross product is tiny against the products it is the difference of
			n := xf.pt(lat(q % 9))
			n.X++
			c13Prim(c, xf, n, xf.pt(lat(q/9%9)), xf.pt(lat(q/81%9)), xf.pt(lat(q/729)), rat, within, crossSign)
			c.Nontriv()
		}}
}

func c13Prim(c *drv.Ctx, xf c13Xf, p1, p2, p3, p4 Pt, rat func(int64) *big.Rat, within func(int64, *big.Rat, *big.Rat) bool, crossSign func(a, b, c Pt) int) {
	{
		{
			ext := new(big.Rat).SetInt64(40 * xf.k)
			tol := new(big.Rat).Add(big.NewRat(1, 1), new(big.Rat).Mul(ext, new(big.Rat).SetFrac64(1, 1<<40)))
			// closest point on segment p2-p3 to p1
			got := clipper.VerifGetClosestPtOnSegment(p1, p2, p3)
			c.Exec(1)
			wx, wy := rat(p2.X), rat(p2.Y)
			if p2 != p3 {
				dx, dy := rat(p3.X-p2.X), rat(p3.Y-p2.Y)
				num := new(big.Rat).Add(new(big.Rat).Mul(rat(p1.X-p2.X), dx), new(big.Rat).Mul(rat(p1.Y-p2.Y), dy))
				den := new(big.Rat).Add(new(big.Rat).Mul(dx, dx), new(big.Rat).Mul(dy, dy))
				t := new(big.Rat).Quo(num, den)
				if t.Sign() < 0 {
					t.SetInt64(0)
				} else if t.Cmp(big.NewRat(1, 1)) > 0 {
					t.SetInt64(1)
				}
				wx = new(big.Rat).Add(wx, new(big.Rat).Mul(t, dx))
				wy = new(big.Rat).Add(wy, new(big.Rat).Mul(t, dy))
			}
			if !within(got.X, wx, tol) || !within(got.Y, wy, tol) {
				c.Fail("getClosestPtOnSegment", xf.name, "%s: getClosestPtOnSegment(%v, %v, %v)=%v, exact (%s,%s)", xf.name, p1, p2, p3, got, wx.FloatString(2), wy.FloatString(2))
			}
			// intersection point of p1-p2 with p3-p4 (parameter clamped to the first segment)
			ip, ok := clipper.VerifGetSegmentIntersectPt(p1, p2, p3, p4)
			c.Exec(1)
			dx1, dy1, dx2, dy2 := p2.X-p1.X, p2.Y-p1.Y, p4.X-p3.X, p4.Y-p3.Y
			det := cmpProd(dy1, dx2, dy2, dx1)
			if ok != (det != 0) {
				c.Fail("getSegmentIntersectPt", xf.name, "%s: getSegmentIntersectPt(%v,%v,%v,%v) reports intersecting=%v, exact determinant sign %d", xf.name, p1, p2, p3, p4, ok, det)
			} else if ok {
				D := new(big.Rat).Sub(new(big.Rat).Mul(rat(dy1), rat(dx2)), new(big.Rat).Mul(rat(dy2), rat(dx1)))
				N := new(big.Rat).Sub(new(big.Rat).Mul(rat(p1.X-p3.X), rat(dy2)), new(big.Rat).Mul(rat(p1.Y-p3.Y), rat(dx2)))
				t := new(big.Rat).Quo(N, D)
				if t.Sign() < 0 {
					t.SetInt64(0)
				} else if t.Cmp(big.NewRat(1, 1)) > 0 {
					t.SetInt64(1)
				}
				ex := new(big.Rat).Add(rat(p1.X), new(big.Rat).Mul(t, rat(dx1)))
				ey := new(big.Rat).Add(rat(p1.Y), new(big.Rat).Mul(t, rat(dy1)))
				if !within(ip.X, ex, tol) || !within(ip.Y, ey, tol) {
					c.Fail("getSegmentIntersectPt", xf.name, "%s: getSegmentIntersectPt(%v,%v,%v,%v)=%v, exact (%s,%s)", xf.name, p1, p2, p3, p4, ip, ex.FloatString(2), ey.FloatString(2))
				}
			}
			// proper / inclusive intersection of the two segments
			s1, s2, s3, s4 := crossSign(p1, p3, p4), crossSign(p2, p3, p4), crossSign(p3, p1, p2), crossSign(p4, p1, p2)
			wantProper := s1*s2 < 0 && s3*s4 < 0
			wantIncl := s1*s2 <= 0 && s3*s4 <= 0 && (s1 != 0 || s2 != 0 || s3 != 0 || s4 != 0)
			g1, g2 := clipper.VerifSegsIntersect(p1, p2, p3, p4, false), clipper.VerifSegsIntersect(p1, p2, p3, p4, true)
			c.Exec(2)
			if g1 != wantProper || g2 != wantIncl {
				c.Fail("segsIntersect", xf.name, "%s: segsIntersect(%v,%v,%v,%v) proper=%v inclusive=%v, exact proper=%v inclusive=%v", xf.name, p1, p2, p3, p4, g1, g2, wantProper, wantIncl)
			}
		}
	}
}

func init() {
	_ = math.Pi
	drv.Register(&drv.Check{
		ID:    "C13",
		Title: "Results do not depend on coordinate magnitude within the advertised range",
		Rule: "a finite grid of magnitudes, bracketing every power of two at which an int64 product or a float64 mantissa in the anchored routines can first overflow: translations by (2^31,0), (0,-2^40), (2^52-64,2^52-64), (-2^52,2^51+1) and scalings by 2^10, 2^20+1, 2^28, 2^31, 2^40, 3*2^50, 2^56, 2^55+1, and scalings by 2^27, 214748364, 2^31+7, 2^40, 2^55+1 followed by the translation that centres the base lattice on the origin (coordinates of both signs; a polygon filling the box [-m,m]^2), applied to every base input of: P(3,3) x every k-th of P(3,3), k coprime to 9 (sheared and axis-aligned embeddings; 4 rotating (clip type, fill rule) pairs per input) for BooleanOpPaths64; P(3,3..5) for Area64, PointInPolygon (all lattice points), SimplifyPath64; P(R5,3[,4]) for RectClipPaths64 (rectangle transformed too); simple polygons of P(4,3) for InflatePaths64 (translations only). " +
			"Oracle: exact 128-bit winding numbers of the transformed solution at the images of base lattice points that are > 2 units from every base edge, compared with the exact reference answer of the base input (not with the library's own small-coordinate result); Area64 against exact k^2 * area; PointInPolygon against the exact base answer; SimplifyPath64: same retained vertices; the sweep's primitives (closest point on a segment, segment intersection point, segments-intersect predicates; through the verif hooks) on every point quadruple of the 3x3 lattice under every scaling of the grid (coordinates up to 2^60.7) against exact rationals within 1 + 2^-40 of the extent. non-trivial = base input with a non-empty expected region / non-zero area / crossing path",
		Assumptions:      []string{"finite magnitude grid, not all magnitudes", "base inputs of <= 5 vertices"},
		RequiredCounters: []string{"boolean_inputs_with_nonempty_expected_region", "unary_paths_with_area", "rect_paths_crossing", "inflate_polygons"},
		Scopes: func(tier string) []*drv.Scope {
			out := []*drv.Scope{c13PrimScope(), c13UnaryScope(3, enum.Esh), c13UnaryScope(4, enum.Esh), c13UnaryScope(3, enum.Eax), c13UnaryScope(4, enum.Eax), c13RectScope(3), c13RectRoundScope(), c13InflateScope(),
				c13BoolScope(tier, enum.Esh), c13BoolScope(tier, enum.Eax)}
			if tier == "thorough" {
				out = append(out, c13UnaryScope(5, enum.Esh), c13UnaryScope(5, enum.Eax), c13RectScope(4))
			}
			return out
		},
	})
}
