package checks

import (
	"fmt"
	"sort"
	"strings"

	clipper "github.com/bolom009/go-clipper2"

	"verif/internal/drv"
	"verif/internal/enum"
	"verif/internal/oracle"
)

// A spelling transformation of a boolean input together with the law it must obey.
type c17Xform struct {
	name string
	// apply builds the transformed input.
	apply func(S, C Paths) (Paths, Paths)
	// cfg maps a base configuration to the configuration to run on the
	// transformed input; ok=false when the law does not apply to it.
	cfg func(ct clipper.ClipType, fr clipper.FillRule) (clipper.ClipType, clipper.FillRule, bool)
	// back maps result coordinates back into the base frame (nil = identity).
	back func(p Pt) Pt
}

func sameCfg(ct clipper.ClipType, fr clipper.FillRule) (clipper.ClipType, clipper.FillRule, bool) {
	return ct, fr, true
}

func mapPaths(ps Paths, f func(Path) Path) Paths {
	if ps == nil {
		return nil
	}
	out := make(Paths, len(ps))
	for i, p := range ps {
		out[i] = f(p)
	}
	return out
}

func rotPath(k int) func(Path) Path {
	return func(p Path) Path {
		n := len(p)
		if n == 0 {
			return Path{}
		}
		out := make(Path, n)
		for i := range p {
			out[i] = p[(i+k)%n]
		}
		return out
	}
}

func closePath(p Path) Path {
	if len(p) == 0 {
		return Path{}
	}
	return append(enum.ClonePath(p), p[0])
}

func doublePath(k int) func(Path) Path {
	return func(p Path) Path {
		out := make(Path, 0, len(p)+1)
		for i, q := range p {
			out = append(out, q)
			if i == k%max(len(p), 1) {
				out = append(out, q)
			}
		}
		return out
	}
}

func revPath(p Path) Path { return clipper.ReversePath(p) }

func swapPN(fr clipper.FillRule) clipper.FillRule {
	switch fr {
	case clipper.Positive:
		return clipper.Negative
	case clipper.Negative:
		return clipper.Positive
	}
	return fr
}

func coordMap(f func(Pt) Pt) func(Path) Path {
	return func(p Path) Path {
		out := make(Path, len(p))
		for i, q := range p {
			out[i] = f(q)
		}
		return out
	}
}

// the 7 non-identity symmetries of the square lattice acting on coordinates
var c17Syms = []struct {
	name    string
	f, inv  func(Pt) Pt
	reflect bool
}{
	{"rot90", func(p Pt) Pt { return Pt{X: -p.Y, Y: p.X} }, func(p Pt) Pt { return Pt{X: p.Y, Y: -p.X} }, false},
	{"rot180", func(p Pt) Pt { return Pt{X: -p.X, Y: -p.Y} }, func(p Pt) Pt { return Pt{X: -p.X, Y: -p.Y} }, false},
	{"rot270", func(p Pt) Pt { return Pt{X: p.Y, Y: -p.X} }, func(p Pt) Pt { return Pt{X: -p.Y, Y: p.X} }, false},
	{"mirrorX", func(p Pt) Pt { return Pt{X: -p.X, Y: p.Y} }, func(p Pt) Pt { return Pt{X: -p.X, Y: p.Y} }, true},
	{"mirrorY", func(p Pt) Pt { return Pt{X: p.X, Y: -p.Y} }, func(p Pt) Pt { return Pt{X: p.X, Y: -p.Y} }, true},
	{"transpose", func(p Pt) Pt { return Pt{X: p.Y, Y: p.X} }, func(p Pt) Pt { return Pt{X: p.Y, Y: p.X} }, true},
	{"antitranspose", func(p Pt) Pt { return Pt{X: -p.Y, Y: -p.X} }, func(p Pt) Pt { return Pt{X: -p.Y, Y: -p.X} }, true},
}

func c17Xforms(full bool, nS, nC, pathsInS int) []c17Xform {
	var out []c17Xform
	onS := func(name string, f func(Path) Path) c17Xform {
		return c17Xform{name: name, apply: func(S, C Paths) (Paths, Paths) { return mapPaths(S, f), C }, cfg: sameCfg}
	}
	onC := func(name string, f func(Path) Path) c17Xform {
		return c17Xform{name: name, apply: func(S, C Paths) (Paths, Paths) { return S, mapPaths(C, f) }, cfg: sameCfg}
	}
	// start rotations
	for k := 1; k < nS; k++ {
		if !full && k > 1 {
			break
		}
		out = append(out, onS(fmt.Sprintf("subject paths started at vertex %d", k), rotPath(k)))
	}
	for k := 1; k < nC; k++ {
		if !full && k > 1 {
			break
		}
		out = append(out, onC(fmt.Sprintf("clip paths started at vertex %d", k), rotPath(k)))
	}
	// closing vertex repeated
	out = append(out, onS("subject closing vertex repeated", closePath))
	if full && nC > 0 {
		out = append(out, onC("clip closing vertex repeated", closePath))
	}
	// every single vertex doubled
	for k := 0; k < nS; k++ {
		if !full && k > 0 {
			break
		}
		out = append(out, onS(fmt.Sprintf("subject vertex %d doubled", k), doublePath(k)))
	}
	if full {
		for k := 0; k < nC; k++ {
			out = append(out, onC(fmt.Sprintf("clip vertex %d doubled", k), doublePath(k)))
		}
	}
	// reversals
	evenOddOnly := func(ct clipper.ClipType, fr clipper.FillRule) (clipper.ClipType, clipper.FillRule, bool) {
		return ct, fr, fr == clipper.EvenOdd
	}
	out = append(out, c17Xform{name: "subject paths reversed (EvenOdd)", apply: func(S, C Paths) (Paths, Paths) { return mapPaths(S, revPath), C }, cfg: evenOddOnly})
	if nC > 0 {
		out = append(out, c17Xform{name: "clip paths reversed (EvenOdd)", apply: func(S, C Paths) (Paths, Paths) { return S, mapPaths(C, revPath) }, cfg: evenOddOnly})
	}
	out = append(out, c17Xform{name: "all paths reversed (EvenOdd, NonZero; Positive<->Negative)",
		apply: func(S, C Paths) (Paths, Paths) { return mapPaths(S, revPath), mapPaths(C, revPath) },
		cfg: func(ct clipper.ClipType, fr clipper.FillRule) (clipper.ClipType, clipper.FillRule, bool) {
			return ct, swapPN(fr), true
		}})
	// subject <-> clip
	if nC > 0 {
		out = append(out, c17Xform{name: "subject and clip exchanged (Union, Intersection, Xor)",
			apply: func(S, C Paths) (Paths, Paths) { return C, S },
			cfg: func(ct clipper.ClipType, fr clipper.FillRule) (clipper.ClipType, clipper.FillRule, bool) {
				return ct, fr, ct != clipper.Difference
			}})
	}
	// path permutation inside the subject set
	if pathsInS > 1 {
		out = append(out, c17Xform{name: "subject paths permuted", apply: func(S, C Paths) (Paths, Paths) {
			T := make(Paths, len(S))
			for i := range S {
				T[i] = S[len(S)-1-i]
			}
			return T, C
		}, cfg: sameCfg})
	}
	// lattice symmetries
	for i, s := range c17Syms {
		if !full && i != 0 && i != 3 {
			continue
		}
		s := s
		out = append(out, c17Xform{name: s.name,
			apply: func(S, C Paths) (Paths, Paths) { return mapPaths(S, coordMap(s.f)), mapPaths(C, coordMap(s.f)) },
			cfg: func(ct clipper.ClipType, fr clipper.FillRule) (clipper.ClipType, clipper.FillRule, bool) {
				if s.reflect {
					return ct, swapPN(fr), true
				}
				return ct, fr, true
			},
			back: s.inv})
	}
	return out
}

// canonPaths returns an order- and start-independent canonical form of a closed path set.
func canonPaths(ps Paths) string {
	strs := make([]string, 0, len(ps))
	for _, p := range ps {
		n := len(p)
		if n == 0 {
			strs = append(strs, "")
			continue
		}
		best := 0
		for i := 1; i < n; i++ {
			if p[i].X < p[best].X || (p[i].X == p[best].X && p[i].Y < p[best].Y) {
				best = i
			}
		}
		var sb strings.Builder
		for i := 0; i < n; i++ {
			q := p[(best+i)%n]
			fmt.Fprintf(&sb, "%d,%d;", q.X, q.Y)
		}
		strs = append(strs, sb.String())
	}
	sort.Strings(strs)
	return strings.Join(strs, "|")
}

func c17Scope(sp *BoolSpace, full bool, nS, nC, pathsInS int) *drv.Scope {
	var w boolWorker
	xf := c17Xforms(full, nS, nC, pathsInS)
	scale, step, margin := regionParams(sp.E, true)
	name := "repr/" + sp.Name
	if !full {
		name += "/generators"
	}
	return &drv.Scope{Name: name, Level: sp.Level, Size: sp.Size, Show: showBool(sp),
		Run: func(c *drv.Ctx, idx uint64) {
			S, C := sp.Gen(idx, &w.g)
			S, C = enum.ClonePaths(S), enum.ClonePaths(C)
			var base [5][4]Paths
			var canon [5][4]string
			for _, fr := range allFillRules {
				for _, ct := range allClipTypes {
					base[ct][fr] = clipper.BooleanOpPaths64(ct, S, C, fr)
					canon[ct][fr] = canonPaths(base[ct][fr])
					c.Exec(1)
				}
			}
			w.reg.SetInput(S, C, scale, step, margin)
			differed := false
			for _, t := range xf {
				S2, C2 := t.apply(S, C)
				for _, fr := range allFillRules {
					for _, ct := range allClipTypes {
						ct2, fr2, ok := t.cfg(ct, fr)
						if !ok {
							continue
						}
						r := clipper.BooleanOpPaths64(ct2, S2, C2, fr2)
						c.Exec(1)
						if t.back != nil {
							r = mapPaths(r, coordMap(t.back))
						}
						if canonPaths(r) == canon[ct][fr] {
							continue
						}
						differed = true
						c.Output(enum.HashPaths(r))
						if m := w.reg.SameRegion(base[ct][fr], r, 2, S, C); m != nil {
							c.Fail("representation", t.name, "%s: %s on the transformed input gives %v (mapped back), the original gives %v: %s", t.name, cfgName(ct, fr), r, base[ct][fr], m.String())
						}
					}
				}
			}
			if differed {
				c.Nontriv()
				c.Count("inputs_where_a_respelling_changed_the_vertex_lists", 1)
			}
		}}
}

// ---- determinism: every call twice in this process, shard hashes compared across processes ----

func treeString(p *clipper.PolyPathBase) string {
	var sb strings.Builder
	var rec func(n *clipper.PolyPathBase)
	rec = func(n *clipper.PolyPathBase) {
		fmt.Fprintf(&sb, "(%v h=%v", n.Polygon(), n.IsHole())
		for _, ch := range n.GetChildren() {
			rec(ch)
		}
		sb.WriteString(")")
	}
	rec(p)
	return sb.String()
}

func c17DetScope(pass string, pa *pathAlpha, level int, qStride uint64) *drv.Scope {
	nP := pa.size()
	nQ := (nP + qStride - 1) / qStride
	var pb, qb Path
	calls := func(P, Q Path) []string {
		var out []string
		add := func(v any) { out = append(out, fmt.Sprint(v)) }
		S, C := Paths{P}, Paths{Q}
		for _, fr := range allFillRules {
			for _, ct := range allClipTypes {
				add(clipper.BooleanOpPaths64(ct, S, C, fr))
			}
			add(treeString(clipper.BooleanOpPolyTree64(clipper.Xor, S, C, fr).PolyPathBase))
			add(clipper.BooleanOpPathsD(clipper.Union, clipper.Paths64ToPathsD(S), clipper.Paths64ToPathsD(C), fr, 1))
		}
		for _, jt := range []clipper.JoinType{clipper.Miter, clipper.Square, clipper.Bevel, clipper.Round} {
			add(clipper.InflatePaths64(S, 3.5, jt, clipper.Polygon))
			add(clipper.InflatePaths64(C, 2, jt, clipper.EndType(1+int(jt))))
		}
		add(clipper.InflatePathsD(clipper.Paths64ToPathsD(S), -1.25, clipper.Round, clipper.Polygon))
		r := clipper.NewRect64(pa.e.F(0, 0).X+1, pa.e.F(0, 0).Y+1, pa.e.F(2, 0).X-1, pa.e.F(0, 2).Y-1)
		add(clipper.RectClipPaths64(r, Paths{P, Q}))
		add(clipper.RectClipLinesPaths64(r, Paths{P, Q}))
		add(clipper.MinkowskiSum64(P, Q, true))
		add(clipper.MinkowskiDiff64(Q, P, false))
		add(clipper.SimplifyPath64(append(enum.ClonePath(P), Q...), 1.5, true))
		add(clipper.TrimCollinear64(append(enum.ClonePath(P), Q...), false))
		add(clipper.Area64(P))
		add(clipper.PointInPolygon(Q[0], P))
		return out
	}
	return &drv.Scope{Name: fmt.Sprintf("determinism/%s/P(3,3) x every %d-th of P(3,3)/%s", pass, qStride, pa.e.Name), Level: level, Size: nP * nQ,
		Show: func(idx uint64) any {
			return map[string]any{"P": pathLit(pa.get(idx%nP, nil)), "Q": pathLit(pa.get((idx/nP)*qStride, nil)), "calls": "16 booleans, trees, D, 9 inflates, rect clip (polygons, lines), Minkowski sum/diff, simplify, trim, area, point-in-polygon - each twice, byte-compared"}
		},
		Run: func(c *drv.Ctx, idx uint64) {
			pb = pa.get(idx%nP, pb)
			qb = pa.get((idx/nP)*qStride, qb)
			a := calls(pb, qb)
			b := calls(pb, qb)
			c.Exec(2 * len(a))
			for i := range a {
				if a[i] != b[i] {
					c.Fail("nondeterminism", "", "call #%d on P=%v Q=%v returned %s the first time and %s the second time", i, pb, qb, a[i], b[i])
				}
				c.ShardHash(drv.HashBytes(0, []byte(a[i])))
			}
			c.Nontriv()
		}}
}

// fixed alphabet of exactly the P(3,3) paths
func p33Alpha(e enum.Embed) *pathAlpha {
	a := &pathAlpha{k: 3, maxN: 3, e: e}
	a.cum = []uint64{0, 0, 0, enum.PathCount(3, 3)}
	return a
}

func init() {
	drv.Register(&drv.Check{
		ID:    "C17",
		Title: "Results are deterministic and independent of how the input is written down",
		Rule: "for every base input of the scopes and every one of the 16 (clip type, fill rule) pairs the law applies to: the whole orbit (thorough) or a generator set (quick) of respellings - every start rotation, closing vertex repeated, every single vertex doubled, subject/clip/all paths reversed (EvenOdd / NonZero / Positive<->Negative), subject<->clip for Union/Intersection/Xor, subject paths permuted, the 7 non-identity symmetries of the square lattice (reflections paired with Positive<->Negative) - is executed and its result, mapped back, must cover the same region as the base result at every witness > 2 units from the input edges (canonically equal vertex lists are accepted without the region test). " +
			"Determinism: 45 representative calls of every API family on all pairs of P(3,3) are executed twice in one process and byte-compared, and the whole scope is run in two passes whose per-shard output hashes (different worker processes) must agree. non-trivial = base input for which some respelling changed the returned vertex lists",
		Assumptions:      []string{"small-scope hypothesis as in C01; region equality is decided on the witness lattice (pitch 1)"},
		RequiredCounters: []string{"inputs_where_a_respelling_changed_the_vertex_lists", "determinism_shards_compared_across_processes"},
		Post: func(sum *drv.Summary) {
			// compare per-shard hashes of the two determinism passes
			a := map[string]uint64{}
			for k, v := range sum.Counters {
				if strings.HasPrefix(k, "xhash|determinism/passA/") {
					a[strings.TrimPrefix(k, "xhash|determinism/passA/")] = v
				}
			}
			n := uint64(0)
			for k, v := range sum.Counters {
				if strings.HasPrefix(k, "xhash|determinism/passB/") {
					key := strings.TrimPrefix(k, "xhash|determinism/passB/")
					if w, ok := a[key]; ok {
						n++
						if w != v {
							parts := strings.Split(key, "|")
							var lo uint64
							if len(parts) >= 2 {
								fmt.Sscan(parts[len(parts)-2], &lo)
							}
							sc := "determinism/passB/" + strings.Join(parts[:len(parts)-2], "|")
							sum.PostViol = append(sum.PostViol, drv.Violation{Scope: sc, Index: lo, Kind: "cross-process-nondeterminism",
								Detail: "shard " + key + ": outputs of the same calls differ between two worker processes"})
						}
					}
				}
			}
			sum.Counters["determinism_shards_compared_across_processes"] = n
		},
		Scopes: func(tier string) []*drv.Scope {
			var out []*drv.Scope
			if tier == "quick" {
				out = append(out, c17Scope(spSingle(enum.Eax, 3, 4, 2), true, 4, 0, 1))
				out = append(out, c17Scope(spPair("B2", enum.Eax, 3, 3, 3, 4), false, 3, 3, 1))
				out = append(out, c17Scope(spRects(enum.Eax, 3, 4), false, 4, 4, 2))
				out = append(out, c17Scope(spTwoLevel(37, 11, 5), false, 4, 3, 1))
				out = append(out, c17Scope(spSingle(enum.Esh, 3, 5, 3), false, 5, 0, 1))
				out = append(out, c17DetScope("passA", p33Alpha(enum.Eax), 3, 13), c17DetScope("passB", p33Alpha(enum.Eax), 3, 13))
				return out
			}
			for _, e := range []enum.Embed{enum.Eax, enum.Esh} {
				out = append(out, c17Scope(spSingle(e, 3, 3, 1), true, 3, 0, 1), c17Scope(spSingle(e, 3, 4, 2), true, 4, 0, 1), c17Scope(spSingle(e, 3, 5, 3), true, 5, 0, 1))
			}
			for _, e := range []enum.Embed{enum.Eax, enum.Esh} {
				out = append(out, c17Scope(spPair("B2", e, 3, 3, 3, 4), true, 3, 3, 1), c17Scope(spTwo(e, 3, 3, 4), true, 3, 0, 2))
			}
			out = append(out, c17Scope(spRects(enum.Eax, 4, 5), true, 4, 4, 2))
			out = append(out, c17Scope(spTwoLevel(7, 3, 5), false, 4, 3, 1))
			out = append(out, c17Scope(spPair("B2", enum.Ean, 3, 3, 3, 4), false, 3, 3, 1))
			for _, e := range []enum.Embed{enum.Eax, enum.Eunit} {
				out = append(out, c17DetScope("passA", p33Alpha(e), 3, 1), c17DetScope("passB", p33Alpha(e), 3, 1))
			}
			return out
		},
	})
	_ = oracle.Fill
}
