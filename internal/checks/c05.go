package checks

import (
	"fmt"
	"math"

	clipper "github.com/bolom009/go-clipper2"

	"verif/internal/drv"
	"verif/internal/enum"
	"verif/internal/oracle"
)

var c05Deltas = []float64{0.3, -0.3, 0.49, -0.49, 0.5, -0.5, 1, -1, 2.5, -2.5, 7, -7, 12, -12, 35, -35}

type offCfg struct {
	delta float64
	jt    clipper.JoinType
	miter float64
	arc   float64
}

func (o offCfg) String() string {
	return fmt.Sprintf("delta=%v join=%s miterLimit=%v arcTolerance=%v", o.delta, jtNames[o.jt], o.miter, o.arc)
}

var jtNames = map[clipper.JoinType]string{clipper.Miter: "Miter", clipper.Square: "Square", clipper.Bevel: "Bevel", clipper.Round: "Round"}

func c05Configs(deltas []float64) []offCfg {
	var out []offCfg
	for _, d := range deltas {
		for _, ml := range []float64{1, 1.5, 2, 5} {
			out = append(out, offCfg{d, clipper.Miter, ml, 0})
		}
		out = append(out, offCfg{d, clipper.Square, 2, 0}, offCfg{d, clipper.Bevel, 2, 0})
		for _, at := range []float64{0, 0.25, 2} {
			out = append(out, offCfg{d, clipper.Round, 2, at})
		}
	}
	return out
}

func joinK(cfg offCfg) float64 {
	switch cfg.jt {
	case clipper.Round, clipper.Bevel:
		return 1
	case clipper.Square:
		return math.Sqrt2
	default:
		return math.Max(cfg.miter, math.Sqrt2)
	}
}

func distToEdges(px, py float64, ps Paths, closed bool) float64 {
	d := math.Inf(1)
	for _, p := range ps {
		n := len(p)
		if n == 0 {
			continue
		}
		if n == 1 {
			d = math.Min(d, math.Hypot(px-float64(p[0].X), py-float64(p[0].Y)))
			continue
		}
		last := n
		if !closed {
			last = n - 1
		}
		for i := 0; i < last; i++ {
			if v := distPtSeg(px, py, p[i], p[(i+1)%n]); v < d {
				d = v
			}
		}
	}
	return d
}

// stripRepeats is the reference for |delta| < 0.5: consecutive repeats and a closing repeat removed.
func stripRepeats(p Path) Path {
	var out Path
	for _, q := range p {
		if len(out) == 0 || out[len(out)-1] != q {
			out = append(out, q)
		}
	}
	if len(out) > 1 && out[0] == out[len(out)-1] {
		out = out[:len(out)-1]
	}
	return out
}

type offWorker struct {
	win, wout []int16
	on        []bool
	diff      []int32
}

// c05Check verifies one polygon offset result against the distance oracle.
// in: simple polygon set (outer boundaries and holes). Returns a description of the first violation.
func c05Check(w *offWorker, in, out Paths, cfg offCfg) (kind, detail string) {
	d := cfg.delta
	ad := math.Abs(d)
	if ad < 0.5 {
		want := Paths{}
		for _, p := range in {
			want = append(want, stripRepeats(p))
		}
		if !enum.EqualPaths(out, want) {
			return "small-delta", fmt.Sprintf("|delta| < 0.5 must return the input paths apart from repeated points: got %v, want %v", out, want)
		}
		return "", ""
	}
	if sd := structuralDefect(out); sd != "" {
		return "degenerate-path", sd
	}
	arcTol := cfg.arc
	if cfg.jt == clipper.Round && arcTol <= 0 {
		arcTol = ad * 0.002
	}
	tol := 2.0
	if cfg.jt == clipper.Round {
		tol += arcTol
	}
	k := joinK(cfg)
	const g = 1e-6
	minX, minY, maxX, maxY, ok := oracle.Bounds(in, out)
	if !ok {
		return "", ""
	}
	pitch := int64(1)
	if ad > 10 {
		pitch = 2
	}
	margin := int64(math.Ceil(k*ad)) + 5
	grid := oracle.NewGrid(minX, minY, maxX, maxY, margin, 4, 4*pitch)
	n := grid.N()
	w.win, w.wout, w.on = fit16(w.win, n), fit16(w.wout, n), fitB(w.on, n)
	if cap(w.diff) < n+1 {
		w.diff = make([]int32, n+1)
	}
	w.diff = w.diff[:n+1]
	grid.Wind(in, w.win, w.on, w.diff)
	grid.Wind(out, w.wout, w.on, w.diff)
	// the result keeps the global orientation of the input (reverse-solution form of a canonical set):
	// windings are all in {0,1} or all in {-1,0}
	neg := oracle.Area2Paths(out).Sign() < 0
	for i := 0; i < n; i++ {
		if w.on[i] {
			continue
		}
		wo := w.wout[i]
		if neg {
			wo = -wo
		}
		if wo < 0 || wo > 1 {
			px, py := grid.WX(i%grid.NX), grid.WY(i/grid.NX)
			if grid.FarFromEdges(px, py, 2, true, out) {
				return "winding", fmt.Sprintf("result winding number %d at (%g,%g), > 2 units from every result edge", wo, float64(px)/4, float64(py)/4)
			}
			continue
		}
		inR := w.win[i] != 0
		got := wo != 0
		px, py := float64(grid.WX(i%grid.NX))/4, float64(grid.WY(i/grid.NX))/4
		// cheap pre-filter: only compute the distance when the answer could matter
		var want, decided bool
		dist := -1.0
		need := func() float64 {
			if dist < 0 {
				dist = distToEdges(px, py, in, true)
			}
			return dist
		}
		if d > 0 {
			switch {
			case inR:
				if !got && need() > 2+g {
					want, decided = true, true
				}
			case got:
				if need() > k*ad+tol+g {
					want, decided = false, true
				} else if cfg.jt == clipper.Round && need() > ad+tol+g {
					want, decided = false, true
				}
			default: // outside R, not in result
				if cfg.jt == clipper.Round && need() <= ad-tol-g {
					want, decided = true, true
				}
			}
		} else {
			switch {
			case !inR:
				if got && need() > 2+g {
					want, decided = false, true
				}
			case !got: // inside R, not in the result
				if need() > k*ad+tol+g {
					want, decided = true, true
				} else if cfg.jt == clipper.Round && need() > ad+tol+g {
					want, decided = true, true
				}
			default: // inside R and in the result
				if cfg.jt == clipper.Round && need() <= ad-tol-g {
					want, decided = false, true
				}
			}
		}
		if decided && want != got {
			return "region", fmt.Sprintf("point (%g,%g): inside input region=%v, distance to the input boundary %.3f; must be inside the result=%v, is inside=%v (k=%.3f, tolerance=%.3f)", px, py, inR, need(), want, got, k, tol)
		}
	}
	// points along edge normals: q + s*n with 0 <= s <= |delta| - tol on the side the region moves to
	if ad-tol > 0.2 {
		for _, p := range in {
			m := len(p)
			for e := 0; e < m; e++ {
				a, b := p[e], p[(e+1)%m]
				ex, ey := float64(b.X-a.X), float64(b.Y-a.Y)
				l := math.Hypot(ex, ey)
				if l == 0 {
					continue
				}
				nx, ny := ey/l, -ex/l
				for _, t := range []float64{0.25, 0.5, 0.75} {
					qx, qy := float64(a.X)+t*ex, float64(a.Y)+t*ey
					// which side is outside the input region?
					w1, on1 := windFloat(in, qx+0.3*nx, qy+0.3*ny)
					w2, on2 := windFloat(in, qx-0.3*nx, qy-0.3*ny)
					if on1 || on2 || (w1 != 0) == (w2 != 0) {
						continue
					}
					sgn := 1.0 // direction from the edge towards the outside of the region
					if w1 != 0 {
						sgn = -1
					}
					if d < 0 {
						sgn = -sgn // shrinking: the band on the inner side must be removed
					}
					for _, f := range []float64{0.4, 0.75, 1} {
						s := f * (ad - tol - 0.1)
						px, py := qx+sgn*s*nx, qy+sgn*s*ny
						// the sample must really be at distance s from the boundary as a whole (no other edge nearer), else it says nothing
						if distToEdges(px, py, in, true) < s-1e-6 {
							continue
						}
						wr, onr := windFloat(out, px, py)
						if onr {
							continue
						}
						if d > 0 && wr == 0 {
							return "normal-band", fmt.Sprintf("point (%.3f,%.3f) = edge %v-%v point + %.3f along its outward normal (<= delta - tolerance) is not inside the result", px, py, a, b, s)
						}
						if d < 0 && wr != 0 {
							return "normal-band", fmt.Sprintf("point (%.3f,%.3f) = edge %v-%v point + %.3f along its inward normal (<= |delta| - tolerance) is still inside the result", px, py, a, b, s)
						}
					}
				}
			}
		}
	}
	return "", ""
}

// windFloat: winding number of a float point w.r.t. integer closed paths (float64 cross products; |coords| < 2^12).
func windFloat(ps Paths, px, py float64) (int, bool) {
	w := 0
	for _, p := range ps {
		n := len(p)
		for e := 0; e < n; e++ {
			a, b := p[e], p[(e+1)%n]
			ax, ay, bx, by := float64(a.X), float64(a.Y), float64(b.X), float64(b.Y)
			cr := (bx-ax)*(py-ay) - (by-ay)*(px-ax)
			if math.Abs(cr) < 1e-9 && px >= math.Min(ax, bx)-1e-9 && px <= math.Max(ax, bx)+1e-9 && py >= math.Min(ay, by)-1e-9 && py <= math.Max(ay, by)+1e-9 {
				return 0, true
			}
			if ay <= py && by > py {
				if cr > 0 {
					w++
				}
			} else if by <= py && ay > py {
				if cr < 0 {
					w--
				}
			}
		}
	}
	return w, false
}

// polygon families -----------------------------------------------------------------

type polyFamily struct {
	name string
	size uint64
	gen  func(idx uint64) (groups []Paths, ok bool) // ok=false: not in the property's domain (not simple)
}

func famSimple(e enum.Embed, k, n int) polyFamily {
	return polyFamily{name: fmt.Sprintf("simple polygons of P(%d,%d)/%s", k, n, e.Name), size: enum.PathCount(k, n),
		gen: func(idx uint64) ([]Paths, bool) {
			p := enum.UnrankPath(idx, k, n, e, nil)
			if !oracle.IsSimple(p) {
				return nil, false
			}
			return []Paths{{p}}, true
		}}
}

// frame rectangle with a simple hole from P(3,n) strictly inside; both orientations of the whole set
func famHole(e enum.Embed, n int) polyFamily {
	cnt := enum.PathCount(3, n)
	return polyFamily{name: fmt.Sprintf("frame + hole from P(3,%d), both path orders/%s", n, e.Name), size: cnt * 4,
		gen: func(idx uint64) ([]Paths, bool) {
			h := enum.UnrankPath(idx%cnt, 3, n, e, nil)
			if !oracle.IsSimple(h) {
				return nil, false
			}
			lo, hi := e.F(0, 0), e.F(2, 2)
			frame := Path{{X: lo.X - 15, Y: lo.Y - 15}, {X: hi.X + 15, Y: lo.Y - 15}, {X: hi.X + 15, Y: hi.Y + 15 + (hi.Y - lo.Y)}, {X: lo.X - 15, Y: hi.Y + 15 + (hi.Y - lo.Y)}}
			if oracle.Area2Small(frame) < 0 {
				frame = clipper.ReversePath(frame)
			}
			if oracle.Area2Small(h) > 0 {
				h = clipper.ReversePath(h)
			}
			if (idx/cnt)%2 == 1 { // globally reversed
				frame, h = clipper.ReversePath(frame), clipper.ReversePath(h)
			}
			if idx/cnt >= 2 { // the hole listed before its outer boundary
				return []Paths{{h, frame}}, true
			}
			return []Paths{{frame, h}}, true
		}}
}

// two disjoint simple triangles added as two groups
func famTwoGroups(e enum.Embed, stride uint64) polyFamily {
	cnt := enum.PathCount(3, 3)
	nb := (cnt + stride - 1) / stride
	return polyFamily{name: fmt.Sprintf("two groups: triangle of P(3,3) + shifted every %d-th triangle of P(3,3)/%s", stride, e.Name), size: cnt * nb,
		gen: func(idx uint64) ([]Paths, bool) {
			a := enum.UnrankPath(idx%cnt, 3, 3, e, nil)
			b := enum.UnrankPath(idx/cnt*stride, 3, 3, e, nil)
			if !oracle.IsSimple(a) || !oracle.IsSimple(b) {
				return nil, false
			}
			if (oracle.Area2Small(a) > 0) != (oracle.Area2Small(b) > 0) {
				b = clipper.ReversePath(b) // one global orientation for the whole set
			}
			w := e.F(2, 2).X - e.F(0, 0).X
			b = clipper.TranslatePath64(b, w+100, 7)
			return []Paths{{a}, {b}}, true
		}}
}

func c05Scope(f polyFamily, cfgs []offCfg, level int) *drv.Scope {
	var w offWorker
	return &drv.Scope{Name: "offset/" + f.name, Level: level, Size: f.size,
		Show: func(idx uint64) any {
			gs, ok := f.gen(idx)
			if !ok {
				return "not a simple polygon (outside the property's domain, skipped)"
			}
			var lit []any
			for _, g := range gs {
				lit = append(lit, pathsLit(g))
			}
			return map[string]any{"groups": lit, "configs": fmt.Sprintf("%d (delta, join, miter limit, arc tolerance) combinations", len(cfgs))}
		},
		Run: func(c *drv.Ctx, idx uint64) {
			gs, ok := f.gen(idx)
			if !ok {
				return
			}
			c.Count("simple_polygon_sets", 1)
			var all Paths
			for _, g := range gs {
				all = append(all, g...)
			}
			nt := false
			for ci, cfg := range cfgs {
				var out Paths
				if len(gs) == 1 {
					out = clipper.InflatePaths64(gs[0], cfg.delta, cfg.jt, clipper.Polygon, clipper.WithMitterLimit(cfg.miter), clipper.WithArcTolerance(cfg.arc))
				} else {
					co := clipper.NewClipperOffset(cfg.miter, cfg.arc, false, false)
					for _, g := range gs {
						co.AddPaths(g, cfg.jt, clipper.Polygon)
					}
					co.Execute64(cfg.delta, &out)
				}
				c.Exec(1)
				c.Output(enum.HashPaths(out))
				if kind, detail := c05Check(&w, all, out, cfg); kind != "" {
					c.Fail(kind, cfg.String(), "%s: %s; input %v result %v", cfg.String(), detail, gs, out)
				}
				if len(out) > 0 && math.Abs(cfg.delta) >= 0.5 {
					nt = true
				}
				if len(out) == 0 && cfg.delta < 0 {
					c.Count("over_shrunk_to_nothing", 1)
				}
				// the same polygons spelt as explicitly closed rings (a,b,c,a): same region, same oracle
				if len(gs) == 1 && (idx+uint64(ci))%3 == 0 {
					ring := make(Paths, len(gs[0]))
					for i, p := range gs[0] {
						ring[i] = append(append(make(Path, 0, len(p)+1), p...), p[0])
					}
					out2 := clipper.InflatePaths64(ring, cfg.delta, cfg.jt, clipper.Polygon, clipper.WithMitterLimit(cfg.miter), clipper.WithArcTolerance(cfg.arc))
					c.Exec(1)
					if kind, detail := c05Check(&w, all, out2, cfg); kind != "" {
						c.Fail(kind, cfg.String()+" closed ring", "%s, every path with its first vertex repeated at the end: %s; input %v result %v", cfg.String(), detail, ring, out2)
					}
				}
			}
			if nt {
				c.Nontriv()
			}
		}}
}

// c05LargeDeltaScope: simple quadrilaterals of P(3,4) (convex, concave and arrow shapes) scaled by 200 with deltas of
// +-1500 and round joins at explicit arc tolerances far below the default 0.002*|delta| = 3: the regime in which an
// arc tolerance matters at all. A pitch-1 lattice over a 10^4 x 10^4 box is out of reach, so the witnesses are
// targeted: 1440 directions on two circles around every input vertex (radius |delta| - tol - 0.5, where the
// statement demands 'inside' for growing / 'outside' for shrinking because the vertex itself is on the boundary,
// and radius |delta| + tol + 0.5, decided by the exact distance to the input region).
func c05LargeDeltaScope() *drv.Scope {
	f := famSimple(enum.Eax20, 3, 4)
	const K = 200
	type cf struct{ d, arc float64 }
	cfgs := []cf{{1500, 0.25}, {-1500, 0.25}, {1500, 1}, {-1500, 1}}
	return &drv.Scope{Name: "offset/large delta +-1500, round joins, arc tolerance 0.25 and 1/" + f.name + " scaled by 200", Level: 3, Size: f.size,
		Show: func(idx uint64) any {
			gs, ok := f.gen(idx)
			if !ok {
				return "not simple (skipped)"
			}
			return map[string]any{"base polygon (scaled by 200)": pathsLit(gs[0]), "configs": "delta +-1500 x arc tolerance {0.25, 1}, Round joins"}
		},
		Run: func(c *drv.Ctx, idx uint64) {
			gs, ok := f.gen(idx)
			if !ok {
				return
			}
			in := Paths{make(Path, len(gs[0][0]))}
			for i, q := range gs[0][0] {
				in[0][i] = Pt{X: q.X * K, Y: q.Y * K}
			}
			for _, cfg := range cfgs {
				out := clipper.InflatePaths64(in, cfg.d, clipper.Round, clipper.Polygon, clipper.WithArcTolerance(cfg.arc))
				c.Exec(1)
				c.Output(enum.HashPaths(out))
				tag := fmt.Sprintf("delta=%v join=Round arc=%v", cfg.d, cfg.arc)
				if sd := structuralDefect(out); sd != "" {
					c.Fail("degenerate-path", tag, "%s: %s; input %v", tag, sd, in)
					continue
				}
				ad, tol := math.Abs(cfg.d), 2+cfg.arc
				bad := false
				for _, v := range in[0] {
					for _, r := range []float64{ad - tol - 0.5, ad + tol + 0.5} {
						for k := 0; k < 1440 && !bad; k++ {
							a := 2 * math.Pi * (float64(k) + 0.37) / 1440
							px, py := float64(v.X)+r*math.Cos(a), float64(v.Y)+r*math.Sin(a)
							wi, oni := windFloat(in, px, py)
							wo, ono := windFloat(out, px, py)
							if oni || ono {
								continue
							}
							inR, got := wi != 0, wo != 0
							dist := distToEdges(px, py, in, true)
							var want, decided bool
							if cfg.d > 0 {
								switch {
								case inR:
									want, decided = true, dist > 2
								case dist <= ad-tol-1e-6:
									want, decided = true, true
								case dist > ad+tol+1e-6:
									want, decided = false, true
								}
							} else {
								switch {
								case !inR:
									want, decided = false, dist > 2
								case dist <= ad-tol-1e-6:
									want, decided = false, true
								case dist > ad+tol+1e-6:
									want, decided = true, true
								}
							}
							if decided && want != got {
								c.Fail("region", tag, "%s: point (%.3f,%.3f) on the circle of radius %.3f around input vertex %v: inside input region=%v, distance to the input boundary %.3f; must be inside the result=%v, is inside=%v (tolerance %.3f); input %v", tag, px, py, r, v, inR, dist, want, got, tol, in)
								bad = true
							}
						}
					}
				}
			}
			c.Nontriv()
		}}
}

func init() {
	drv.Register(&drv.Check{
		ID:    "C05",
		Title: "Polygon offsetting grows/shrinks the region by delta",
		Rule: "every simple polygon (exact simplicity test; both orientations) of P(4,3..4[,5]) under stride-20 axis-aligned and sheared embeddings, frame+hole sets (hole from P(3,3..4), both global orientations, hole listed before or after its outer boundary) and two-group sets, x delta in {+-0.3, +-0.49, +-0.5, +-1, +-2.5, +-7, +-12, +-35} x {Miter x limit 1,1.5,2,5; Square; Bevel; Round x arc tolerance 0,.25,2} through InflatePaths64 / ClipperOffset; plus every simple quadrilateral of P(3,4) scaled by 200 with delta +-1500, round joins and arc tolerances 0.25 and 1 (far below the default 0.002|delta|), judged on 2 x 1440 probes per input vertex (circles of radius |delta| -+ (tol + 0.5)); " +
			"oracle on a witness lattice over bbox + k|delta| + 5 with exact winding of input and result and float64 distances (1e-6 guard): delta>0: inside R and > 2 from its boundary => inside; outside and dist > k*delta+tol => outside; Round: dist <= delta-tol => inside, > delta+tol => outside; points q+s*n on edge normals with s <= delta-tol (no other edge nearer) => inside; delta<0: the mirror statements for the complement; |delta|<0.5: input with repeats removed, exactly; result canonical (>=3 vertices, no repeats, winding in {0,1}). k = 1 (Round, Bevel), sqrt2 (Square), max(miterLimit, sqrt2) (Miter); tol = 2 (+ arc tolerance for Round). non-trivial = polygon set with a non-empty result for some |delta| >= 0.5",
		Assumptions:      []string{"<= 5 vertices per polygon; float64 distance comparisons with 1e-6 guard on coordinates < 2^12; witness pitch 1 (2 for |delta| > 10)"},
		RequiredCounters: []string{"simple_polygon_sets", "over_shrunk_to_nothing"},
		Scopes: func(tier string) []*drv.Scope {
			var out []*drv.Scope
			cfgs := c05Configs(c05Deltas)
			if tier == "quick" {
				q := c05Configs([]float64{0.3, -0.49, 0.5, -1, 2.5, -7, 12, -35})
				out = append(out, c05Scope(famSimple(enum.Eax20, 4, 3), cfgs, 1), c05Scope(famSimple(enum.Esh20, 4, 3), q, 1), c05Scope(famSimple(enum.Eax20, 4, 4), q, 2),
					c05Scope(famHole(enum.Eax20, 3), q, 3), c05Scope(famTwoGroups(enum.Eax20, 17), c05Configs([]float64{2.5, -2.5, 12}), 3), c05LargeDeltaScope())
				return out
			}
			for _, e := range []enum.Embed{enum.Eax20, enum.Esh20} {
				out = append(out, c05Scope(famSimple(e, 4, 3), cfgs, 1), c05Scope(famSimple(e, 4, 4), cfgs, 2), c05Scope(famHole(e, 3), cfgs, 3), c05Scope(famHole(e, 4), cfgs, 3))
			}
			out = append(out, c05Scope(famTwoGroups(enum.Eax20, 1), c05Configs([]float64{0.3, 2.5, -2.5, 12, -12}), 3), c05Scope(famSimple(enum.Eax20, 4, 5), cfgs, 4), c05Scope(famSimple(enum.Esh20, 4, 5), c05Configs([]float64{1, -1, 7, -7, 35}), 4), c05LargeDeltaScope())
			return out
		},
	})
}
