package checks

import (
	"fmt"
	"math"

	clipper "github.com/bolom009/go-clipper2"

	"verif/internal/drv"
	"verif/internal/enum"
	"verif/internal/oracle"
)

var etNames = map[clipper.EndType]string{clipper.Polygon: "Polygon", clipper.Joined: "Joined", clipper.Butt: "Butt", clipper.SquareET: "Square", clipper.RoundET: "Round"}

type strokeCfg struct {
	delta float64
	jt    clipper.JoinType
	et    clipper.EndType
}

func (s strokeCfg) String() string {
	return fmt.Sprintf("delta=%v join=%s end=%s", s.delta, jtNames[s.jt], etNames[s.et])
}

func dedupPath(p Path) Path {
	var out Path
	for _, q := range p {
		if len(out) == 0 || out[len(out)-1] != q {
			out = append(out, q)
		}
	}
	return out
}

// c10Check verifies one open-path offset result. Returns (kind, detail, sawInsideRequirement).
func c10Check(w *offWorker, line Path, out Paths, cfg strokeCfg) (string, string, bool) {
	d := cfg.delta
	const g = 1e-6
	if sd := structuralDefect(out); sd != "" {
		return "degenerate-path", sd, false
	}
	pts := dedupPath(line)
	joined := cfg.et == clipper.Joined
	if joined && len(pts) > 1 && pts[0] == pts[len(pts)-1] {
		pts = pts[:len(pts)-1]
	}
	arcTol := 0.0
	if cfg.jt == clipper.Round || cfg.et == clipper.RoundET {
		arcTol = d * 0.002
	}
	tol := 2 + arcTol
	k := joinK(offCfg{jt: cfg.jt, miter: 2})
	if cfg.et == clipper.SquareET || (joined && len(pts) == 2 && cfg.jt != clipper.Round) {
		k = math.Max(k, math.Sqrt2)
	}
	single := len(pts) == 1
	if single {
		k = math.Sqrt2
		if cfg.et == clipper.RoundET {
			k = 1
		}
	}
	// segments of the stroked curve
	type seg struct{ a, b Pt }
	var segs []seg
	for i := 0; i+1 < len(pts); i++ {
		segs = append(segs, seg{pts[i], pts[i+1]})
	}
	if joined && len(pts) > 2 {
		segs = append(segs, seg{pts[len(pts)-1], pts[0]})
	}
	minX, minY, maxX, maxY, _ := oracle.Bounds(Paths{line}, out)
	margin := int64(math.Ceil(k*d)) + 5
	grid := oracle.NewGrid(minX, minY, maxX, maxY, margin, 4, 4)
	n := grid.N()
	w.wout, w.on = fit16(w.wout, n), fitB(w.on, n)
	if cap(w.diff) < n+1 {
		w.diff = make([]int32, n+1)
	}
	w.diff = w.diff[:n+1]
	grid.Wind(out, w.wout, w.on, w.diff)
	neg := oracle.Area2Paths(out).Sign() < 0
	sawInside := false
	distAll := func(px, py float64) float64 {
		if single {
			return math.Hypot(px-float64(pts[0].X), py-float64(pts[0].Y))
		}
		dd := math.Inf(1)
		for _, s := range segs {
			if v := distPtSeg(px, py, s.a, s.b); v < dd {
				dd = v
			}
		}
		return dd
	}
	for i := 0; i < n; i++ {
		if w.on[i] {
			continue
		}
		wo := w.wout[i]
		if neg {
			wo = -wo
		}
		px, py := float64(grid.WX(i%grid.NX))/4, float64(grid.WY(i/grid.NX))/4
		if wo < 0 || wo > 1 {
			if grid.FarFromEdges(grid.WX(i%grid.NX), grid.WY(i/grid.NX), 2, true, out) {
				return "winding", fmt.Sprintf("result winding number %d at (%g,%g), > 2 units from every result edge", w.wout[i], px, py), sawInside
			}
			continue
		}
		got := wo != 0
		dist := distAll(px, py)
		if dist > k*d+tol+g {
			if got {
				return "too-far", fmt.Sprintf("point (%g,%g) is %.3f from the line, farther than k*delta + tolerance = %.3f, but inside the result", px, py, dist, k*d+tol), sawInside
			}
			continue
		}
		if single {
			e := pts[0]
			var in bool
			if cfg.et == clipper.RoundET {
				in = dist <= d-tol-g
			} else {
				in = math.Max(math.Abs(px-float64(e.X)), math.Abs(py-float64(e.Y))) <= d-tol-g
			}
			if in {
				sawInside = true
				if !got {
					return "single-point", fmt.Sprintf("point (%g,%g) is within delta - tolerance of the single input point %v (%s) but not inside the result", px, py, e, map[bool]string{true: "disc", false: "square"}[cfg.et == clipper.RoundET]), sawInside
				}
			}
			continue
		}
		// normal bands
		need := false
		why := ""
		for si, s := range segs {
			ex, ey := float64(s.b.X-s.a.X), float64(s.b.Y-s.a.Y)
			l2 := ex*ex + ey*ey
			t := ((px-float64(s.a.X))*ex + (py-float64(s.a.Y))*ey) / l2
			if t <= 0 || t >= 1 {
				continue
			}
			// the rounding band also acts along the tangent: feet within tol of a segment end say nothing
			// (butt ends stop at the end point, bevel/square joins cut close to a sharp vertex)
			_ = si
			if l := math.Sqrt(l2); t*l < tol || (1-t)*l < tol {
				continue
			}
			perp := math.Abs((px-float64(s.a.X))*ey-(py-float64(s.a.Y))*ex) / math.Sqrt(l2)
			if perp <= d-tol-g {
				need, why = true, fmt.Sprintf("it is %.3f (<= delta - tolerance) from segment %v-%v along its normal", perp, s.a, s.b)
				break
			}
		}
		// end caps of an open stroke
		if !joined {
			for endIdx := 0; endIdx < 2; endIdx++ {
				var e, nb Pt
				if endIdx == 0 {
					e, nb = pts[0], pts[1]
				} else {
					e, nb = pts[len(pts)-1], pts[len(pts)-2]
				}
				tx, ty := float64(e.X-nb.X), float64(e.Y-nb.Y) // outward tangent
				tl := math.Hypot(tx, ty)
				tx, ty = tx/tl, ty/tl
				a := (px-float64(e.X))*tx + (py-float64(e.Y))*ty
				b := math.Abs((px-float64(e.X))*ty - (py-float64(e.Y))*tx)
				switch cfg.et {
				case clipper.SquareET:
					if a >= 0 && a <= d-tol-g && b <= d-tol-g {
						need, why = true, fmt.Sprintf("it lies in the square cap of end point %v (along %.3f, across %.3f, both <= delta - tolerance)", e, a, b)
					}
				case clipper.RoundET:
					if math.Hypot(px-float64(e.X), py-float64(e.Y)) <= d-tol-g {
						need, why = true, fmt.Sprintf("it is within delta - tolerance of end point %v (round cap)", e)
					}
				case clipper.Butt:
					// beyond a butt end: outside, provided no other part of the line is near
					if a > tol+g && b <= d && !need && got {
						other := math.Inf(1)
						for si, s := range segs {
							if (endIdx == 0 && si == 0) || (endIdx == 1 && si == len(segs)-1) {
								continue
							}
							if v := distPtSeg(px, py, s.a, s.b); v < other {
								other = v
							}
						}
						if other > k*d+tol+g {
							return "butt-end", fmt.Sprintf("point (%g,%g) lies %.3f beyond the butt end %v (more than the tolerance) and %.3f from the rest of the line, but is inside the result", px, py, a, e, other), sawInside
						}
					}
				}
			}
		}
		if need {
			sawInside = true
			if !got {
				return "not-covered", fmt.Sprintf("point (%g,%g) is not inside the result although %s", px, py, why), sawInside
			}
		}
	}
	return "", "", sawInside
}

var c10AllEnds = []clipper.EndType{clipper.Joined, clipper.Butt, clipper.SquareET, clipper.RoundET}

func c10Scope(e enum.Embed, k, n int, deltas []float64, level int) *drv.Scope {
	return c10ScopeET(e, k, n, deltas, c10AllEnds, level)
}

func c10ScopeET(e enum.Embed, k, n int, deltas []float64, ends []clipper.EndType, level int) *drv.Scope {
	var w offWorker
	var buf Path
	var cfgs []strokeCfg
	for _, d := range deltas {
		for _, et := range ends {
			for _, jt := range []clipper.JoinType{clipper.Miter, clipper.Square, clipper.Bevel, clipper.Round} {
				cfgs = append(cfgs, strokeCfg{d, jt, et})
			}
		}
	}
	name := fmt.Sprintf("stroke/P(%d,%d)/%s", k, n, e.Name)
	if len(ends) != len(c10AllEnds) {
		name += fmt.Sprintf("/end types %v", ends)
	}
	return &drv.Scope{Name: name, Level: level, Size: enum.PathCount(k, n),
		Show: func(idx uint64) any {
			return map[string]any{"line": pathLit(enum.UnrankPath(idx, k, n, e, nil)), "configs": fmt.Sprintf("deltas %v x end types %v x 4 join types", deltas, ends)}
		},
		Run: func(c *drv.Ctx, idx uint64) {
			buf = enum.UnrankPath(idx, k, n, e, buf)
			line := enum.ClonePath(buf)
			nt := false
			for _, cfg := range cfgs {
				out := clipper.InflatePaths64(Paths{buf}, cfg.delta, cfg.jt, cfg.et)
				c.Exec(1)
				c.Output(enum.HashPaths(out))
				kind, detail, saw := c10Check(&w, line, out, cfg)
				if kind != "" {
					c.Fail(kind, cfg.String(), "%s: %s; line %v result %v", cfg.String(), detail, line, out)
				}
				if saw {
					nt = true
				}
			}
			if nt {
				c.Nontriv()
				c.Count("lines_with_an_inside_requirement", 1)
			}
		}}
}

// c10MultiScope: several open paths in one call (a point, the line, and a shifted copy of the line): per-object
// scratch buffers must not leak from one path's stroke into the next.
func c10MultiScope(e enum.Embed, k, n int, deltas []float64, level int) *drv.Scope {
	var w offWorker
	var buf Path
	var cfgs []strokeCfg
	for _, d := range deltas {
		for _, et := range []clipper.EndType{clipper.Joined, clipper.Butt, clipper.SquareET, clipper.RoundET} {
			for _, jt := range []clipper.JoinType{clipper.Miter, clipper.Square, clipper.Bevel, clipper.Round} {
				cfgs = append(cfgs, strokeCfg{d, jt, et})
			}
		}
	}
	const shift = 400
	return &drv.Scope{Name: fmt.Sprintf("stroke3paths/{point, line, shifted line} line in P(%d,%d)/%s", k, n, e.Name), Level: level, Size: enum.PathCount(k, n),
		Show: func(idx uint64) any {
			l := enum.UnrankPath(idx, k, n, e, nil)
			return map[string]any{"paths": pathsLit(Paths{{{X: -shift, Y: -shift}}, l, clipper.TranslatePath64(l, shift, 0)}), "configs": fmt.Sprintf("deltas %v x 4 end types x 4 join types", deltas)}
		},
		Run: func(c *drv.Ctx, idx uint64) {
			buf = enum.UnrankPath(idx, k, n, e, buf)
			line := enum.ClonePath(buf)
			pt := Path{{X: -shift, Y: -shift}}
			line2 := clipper.TranslatePath64(line, shift, 0)
			nt := false
			for _, cfg := range cfgs {
				out := clipper.InflatePaths64(Paths{pt, line, line2}, cfg.delta, cfg.jt, cfg.et)
				c.Exec(1)
				c.Output(enum.HashPaths(out))
				// the three strokes are far apart: split the result by position and hold each part against its own path
				var parts [3]Paths
				for _, p := range out {
					minX, minY, _, _, _ := oracle.Bounds(Paths{p})
					switch {
					case minX < -shift/2 && minY < -shift/2:
						parts[0] = append(parts[0], p)
					case minX > shift/2:
						parts[2] = append(parts[2], p)
					default:
						parts[1] = append(parts[1], p)
					}
				}
				for i, in := range []Path{pt, line, line2} {
					kind, detail, saw := c10Check(&w, in, parts[i], cfg)
					if kind != "" {
						c.Fail(kind, cfg.String(), "%s, path %d of 3 in one call: %s; paths %v result %v", cfg.String(), i, detail, Paths{pt, line, line2}, out)
						break
					}
					if saw {
						nt = true
					}
				}
			}
			if nt {
				c.Nontriv()
				c.Count("multi_path_calls_with_an_inside_requirement", 1)
			}
		}}
}

// c10LongScope: the same polylines with every coordinate and the delta multiplied by K = 2^27 and centred on the
// origin (coordinates of both signs up to 2.7e9, segments of 2.7e9 .. 7.6e9 units: squares of segment lengths
// exceed 2^63). The library is called on the scaled input; its result is divided by K (rounded: at most half a
// base unit, inside the 2-unit band) and held against the base line by the ordinary oracle.
func c10LongScope() *drv.Scope {
	const K = int64(1) << 27
	e := enum.Eax20
	n2, n3 := enum.PathCount(3, 2), enum.PathCount(3, 3)
	var w offWorker
	var buf Path
	var cfgs []strokeCfg
	for _, d := range []float64{3, 7.5} {
		for _, et := range c10AllEnds {
			for _, jt := range []clipper.JoinType{clipper.Miter, clipper.Square, clipper.Bevel, clipper.Round} {
				cfgs = append(cfgs, strokeCfg{d, jt, et})
			}
		}
	}
	get := func(idx uint64) Path {
		if idx < n2 {
			buf = enum.UnrankPath(idx, 3, 2, e, buf)
		} else {
			buf = enum.UnrankPath(idx-n2, 3, 3, e, buf)
		}
		return buf
	}
	divRound := func(v int64) int64 {
		if v >= 0 {
			return (v + K/2) / K
		}
		return -((-v + K/2) / K)
	}
	return &drv.Scope{Name: "stroke/P(3,2..3)/E_ax20 scaled by 2^27 and centred on the origin", Level: 3, Size: n2 + n3,
		Show: func(idx uint64) any {
			return map[string]any{"base line": pathLit(get(idx)), "transformation": "p -> 2^27 * (p - (20,20)), delta -> 2^27 * delta", "configs": "deltas [3 7.5] x 4 end types x 4 join types"}
		},
		Run: func(c *drv.Ctx, idx uint64) {
			base := enum.ClonePath(get(idx))
			centred := make(Path, len(base))
			scaled := make(Path, len(base))
			for i, q := range base {
				centred[i] = Pt{X: q.X - 20, Y: q.Y - 20}
				scaled[i] = Pt{X: centred[i].X * K, Y: centred[i].Y * K}
			}
			nt := false
			for _, cfg := range cfgs {
				out := clipper.InflatePaths64(Paths{scaled}, cfg.delta*float64(K), cfg.jt, cfg.et)
				c.Exec(1)
				c.Output(enum.HashPaths(out))
				if sd := structuralDefect(out); sd != "" {
					c.Fail("degenerate-path", cfg.String(), "%s: %s; scaled line %v", cfg.String(), sd, scaled)
					continue
				}
				var back Paths
				for _, p := range out {
					var q Path
					for _, v := range p {
						r := Pt{X: divRound(v.X), Y: divRound(v.Y)}
						if len(q) == 0 || q[len(q)-1] != r {
							q = append(q, r)
						}
					}
					for len(q) > 1 && q[0] == q[len(q)-1] {
						q = q[:len(q)-1]
					}
					if len(q) >= 3 {
						back = append(back, q)
					}
				}
				kind, detail, saw := c10Check(&w, centred, back, cfg)
				if kind != "" {
					c.Fail(kind, cfg.String(), "%s (input and delta scaled by 2^27, result divided by 2^27): %s; base line %v, scaled result %v", cfg.String(), detail, centred, out)
				}
				if saw {
					nt = true
				}
			}
			if nt {
				c.Nontriv()
			}
		}}
}

// c10HugePointScope: a single point far outside the float64-exact range: the square / circle around it is built by
// adding small offsets to the integer centre, so it must come out as exact as around a small centre.
func c10HugePointScope() *drv.Scope {
	centres := []Pt{{X: 1<<53 + 1, Y: 1<<53 + 3}, {X: 1<<58 + 7, Y: -(1<<58 + 5)}, {X: -(1<<60 + 3), Y: 1<<60 + 1}, {X: 1<<58 + 7, Y: 12}}
	ds := []float64{0.5, 1, 3, 7.5, 12, 30}
	var w offWorker
	return &drv.Scope{Name: "stroke/single point at |centre| up to 2^60", Level: 1, Size: uint64(len(centres) * len(ds)),
		Show: func(idx uint64) any {
			return map[string]any{"point": centres[idx%uint64(len(centres))], "delta": ds[idx/uint64(len(centres))]}
		},
		Run: func(c *drv.Ctx, idx uint64) {
			ctr, d := centres[idx%uint64(len(centres))], ds[idx/uint64(len(centres))]
			for _, et := range c10AllEnds {
				for _, jt := range []clipper.JoinType{clipper.Miter, clipper.Square, clipper.Bevel, clipper.Round} {
					cfg := strokeCfg{d, jt, et}
					out := clipper.InflatePaths64(Paths{{ctr}}, d, jt, et)
					c.Exec(1)
					c.Output(enum.HashPaths(out))
					// exact integer translation back to the origin, then the ordinary single-point oracle
					back := clipper.TranslatePaths64(out, -ctr.X, -ctr.Y)
					kind, detail, _ := c10Check(&w, Path{{X: 0, Y: 0}}, back, cfg)
					if kind != "" {
						c.Fail(kind, cfg.String(), "%s: %s; point %v, result translated back to the origin %v", cfg.String(), detail, ctr, back)
					}
				}
			}
			c.Nontriv()
		}}
}

func init() {
	drv.Register(&drv.Check{
		ID:    "C10",
		Title: "Open-path offsetting produces the stroke of half-width delta",
		Rule: "every polyline of 1-3 (quick) / 1-4 (thorough) points over L(4) at stride 20 (duplicates, collinear runs and 180-degree reversals are members), axis-aligned and sheared, x end types {Joined, Butt, Square, Round} x 4 join types x delta in {0.5, 1, 3, 7.5, 12}, plus three paths per call (a point, a line of P(3,3), its shifted copy: each part of the result is held against its own path), plus every 4-vertex polyline over L(3) with Joined and Butt ends (quick), plus a single point at centres up to 2^60 in magnitude (result translated back exactly), plus P(3,2..3) with coordinates and delta scaled by 2^27 and centred on the origin (segments up to 7.6e9 units; result divided by 2^27 and held against the base line); " +
			"oracle on a pitch-1 witness lattice with exact winding of the result and float64 distances (1e-6 guard): a point whose foot on a segment is interior and whose normal distance is <= delta - tol is inside (Joined: closing segment included); a point farther than k*delta + tol from the line is outside; Square ends: the delta-tol square beyond each end is inside; Round ends: the delta-tol disc is inside; Butt ends: a point more than tol beyond an end and farther than k*delta+tol from the rest of the line is outside; a single point: square (disc for Round ends) of radius delta-tol inside, outside beyond sqrt2*delta+tol (delta+tol); result canonical. tol = 2 + arc tolerance. non-trivial = line for which some configuration has a point that must be inside",
		Assumptions:      []string{"<= 4 points; float64 distances; witness pitch 1"},
		RequiredCounters: []string{"lines_with_an_inside_requirement", "multi_path_calls_with_an_inside_requirement"},
		Scopes: func(tier string) []*drv.Scope {
			ds := []float64{0.5, 1, 3, 7.5, 12}
			out := []*drv.Scope{c10Scope(enum.Eax20, 4, 1, ds, 1), c10Scope(enum.Eax20, 4, 2, ds, 2), c10Scope(enum.Esh20, 4, 2, ds, 2), c10Scope(enum.Eax20, 4, 3, []float64{1, 7.5}, 3),
				c10MultiScope(enum.Eax20, 3, 3, []float64{7.5}, 3), c10HugePointScope(), c10LongScope()}
			if tier == "quick" {
				// 4-vertex polylines: the smallest even vertex count whose Joined stroke has a middle segment
				out = append(out, c10ScopeET(enum.Eax20, 3, 4, []float64{3, 7.5}, []clipper.EndType{clipper.Joined, clipper.Butt}, 4))
				return out
			}
			out = append(out, c10Scope(enum.Eax20, 4, 3, ds, 3), c10Scope(enum.Esh20, 4, 3, ds, 3), c10Scope(enum.Eax20, 4, 4, []float64{0.5, 3, 7.5}, 4), c10Scope(enum.Esh20, 4, 4, []float64{7.5}, 4))
			return out
		},
	})
}
