package checks

import (
	"fmt"

	clipper "github.com/bolom009/go-clipper2"

	"verif/internal/drv"
	"verif/internal/enum"
	"verif/internal/oracle"
)

// engineRun executes one boolean operation on a fresh engine with the two
// options set through the verif hook.
func engineRun(S, C Paths, ct clipper.ClipType, fr clipper.FillRule, preserveCollinear, reverse bool) (Paths, bool) {
	e := clipper.NewClipper64()
	e.VerifSetOptions(preserveCollinear, reverse)
	e.AddPaths(S, clipper.Subject, false)
	if C != nil {
		e.AddPaths(C, clipper.Clip, false)
	}
	var sol Paths
	ok := e.Execute(ct, fr, &sol)
	return sol, ok
}

// structuralDefects checks ">= 3 vertices, no two consecutive equal vertices (first and last included)".
func structuralDefect(sol Paths) string {
	for i, p := range sol {
		if len(p) < 3 {
			return fmt.Sprintf("path %d has %d vertices: %v", i, len(p), p)
		}
		for j := range p {
			if p[j] == p[(j+1)%len(p)] {
				return fmt.Sprintf("path %d repeats vertex %v at positions %d,%d: %v", i, p[j], j, (j+1)%len(p), p)
			}
		}
	}
	return ""
}

func c02Scope(sp *BoolSpace, optStride uint64) *drv.Scope {
	var w boolWorker
	scale, step, margin := regionParams(sp.E, false)
	unit := sp.E.Name == "E_unit"
	return &drv.Scope{Name: sp.Name, Level: sp.Level, Size: sp.Size, Show: showBool(sp),
		Run: func(c *drv.Ctx, idx uint64) {
			S, C := sp.Gen(idx, &w.g)
			w.reg.SetInput(S, C, scale, step, margin)
			nontriv := false
			for _, fr := range allFillRules {
				for _, ct := range allClipTypes {
					for opt := 0; opt < 4; opt++ {
						pc, rs := opt&1 == 0, opt&2 != 0 // opt 0 = library defaults (preserveCollinear on, reverse off)
						if opt != 0 && idx%optStride != 0 {
							continue
						}
						sol, ok := engineRun(S, C, ct, fr, pc, rs)
						c.Exec(1)
						sub := fmt.Sprintf("%s preserveCollinear=%v reverse=%v", cfgName(ct, fr), pc, rs)
						if !ok {
							c.Fail("execute-false", sub, "Execute returned false")
						}
						c.Output(enum.HashPaths(sol) + uint64(opt))
						if d := structuralDefect(sol); d != "" {
							c.Fail("degenerate-path", sub, "%s: %s; solution=%v", sub, d, sol)
						}
						if len(sol) == 0 {
							continue
						}
						if len(sol) > 1 {
							c.Count("solutions_with_several_paths", 1)
						}
						if unit {
							continue // the whole plane is inside the 2-unit band of the solution edges
						}
						w.reg.LoadSolution(sol)
						lo, hi := int16(0), int16(1)
						if rs {
							lo, hi = -1, 0
						}
						if m := w.reg.CheckWinding01(sol, lo, hi, 2); m != nil {
							c.Fail("winding", sub, "%s: %s; solution=%v", sub, m.String(), sol)
						}
						nontriv = true
						if rs {
							// every orientation flips together: same region, negated areas
							plain, _ := engineRun(S, C, ct, fr, pc, false)
							c.Exec(1)
							if m := w.reg.SameRegion(plain, sol, 2, plain, sol); m != nil {
								c.Fail("reverse-region", sub, "%s: reversed solution %v covers a different region than %v: %s", sub, sol, plain, m.String())
							}
							a, b := oracle.Area2Paths(plain), oracle.Area2Paths(sol)
							if a.Sign() != -b.Sign() {
								c.Fail("reverse-orientation", sub, "%s: total signed area %v (plain) vs %v (reversed)", sub, a, b)
							}
							// ... also in the tree form of the same execution
							et := clipper.NewClipper64()
							et.VerifSetOptions(pc, true)
							et.AddPaths(S, clipper.Subject, false)
							if C != nil {
								et.AddPaths(C, clipper.Clip, false)
							}
							tree := clipper.NewPolyTree64()
							var open clipper.PathsD
							et.ExecutePolyTree64(ct, fr, tree, &open)
							c.Exec(1)
							var polys Paths
							for _, n := range flattenTree(tree.PolyPathBase) {
								polys = append(polys, n.poly)
							}
							if canonPaths(polys) != canonPaths(sol) {
								c.Fail("reverse-tree", sub, "%s: with reverse-solution on, ExecutePolyTree64 holds %v but Execute returns %v (same engine options, same input)", sub, polys, sol)
							}
						} else if opt == 0 && idx%8 == 0 && ct == clipper.Union {
							// re-uniting a solution with itself changes nothing outside the band
							again := clipper.BooleanOpPaths64(clipper.Union, sol, nil, clipper.NonZero)
							c.Exec(1)
							if m := w.reg.SameRegion(sol, again, 2, sol); m != nil {
								c.Fail("reunion", sub, "%s: Union(solution, NonZero)=%v differs from solution=%v: %s", sub, again, sol, m.String())
							}
							c.Count("reunion_checked", 1)
						}
					}
				}
			}
			if nontriv {
				c.Nontriv()
				c.Count("inputs_with_nonempty_solution", 1)
			}
		}}
}

func init() {
	drv.Register(&drv.Check{
		ID:    "C02",
		Title: "Closed solutions are a canonical, non-overlapping polygon set",
		Rule: "the closed boolean scopes of C01 plus the unit embedding, x 16 (clip type, fill rule) x {preserveCollinear, reverseSolution} in {on,off}^2 (set through the verif hook; the non-default option settings on every optStride-th input); " +
			"oracle per solution: every path has >= 3 vertices and no equal cyclic neighbours; total winding number (exact scan) in {0,1} ({-1,0} when reversed) at every witness > 2 units from every solution edge; reversed solution covers the same region with negated signed area, and the tree form of the reversed execution holds the same polygons; Union(solution,NonZero) is region-equal to the solution (every 8th input). non-trivial = input with a non-empty solution whose winding was examined",
		Assumptions:      []string{"small-scope hypothesis as in C01", "winding outside {0,1} confined to the 2-unit band of solution edges is allowed by the statement and not reported"},
		RequiredCounters: []string{"inputs_with_nonempty_solution", "reunion_checked", "solutions_with_several_paths"},
		Scopes: func(tier string) []*drv.Scope {
			var out []*drv.Scope
			if tier == "quick" {
				for _, e := range []enum.Embed{enum.Eax, enum.Esh, enum.Eunit} {
					out = append(out, c02Scope(spSingle(e, 3, 3, 1), 1), c02Scope(spSingle(e, 3, 4, 2), 1), c02Scope(spSingle(e, 3, 5, 3), 4))
				}
				out = append(out, c02Scope(spPair("B2", enum.Eax, 3, 3, 3, 4), 8), c02Scope(spTwo(enum.Eax, 3, 3, 4), 8),
					c02Scope(spPair("B2", enum.Esh, 3, 3, 3, 4), 16), c02Scope(spTwo(enum.Eunit, 3, 3, 4), 16), c02Scope(spThree(enum.Eax, 13, 5), 16), c02Scope(spTwoLevel(11, 7, 5), 16), c02Scope(spShapes(enum.Eax, 4, 5), 16), c02Scope(spNudged(enum.Eax, 2), 1), c02Scope(spNudged(enum.Ean, 2), 1), c02Scope(spNudged(enum.Esh, 2), 1))
				return out
			}
			for _, sp := range boolSpaces("thorough") {
				stride := uint64(4)
				if sp.Level >= 5 {
					stride = 64
				}
				out = append(out, c02Scope(sp, stride))
			}
			for n := 3; n <= 6; n++ {
				out = append(out, c02Scope(spSingle(enum.Eunit, 3, n, n-2), 1))
			}
			out = append(out, c02Scope(spPair("B2", enum.Eunit, 3, 3, 3, 4), 4), c02Scope(spTwo(enum.Eunit, 3, 3, 4), 4), c02Scope(spPair("B3", enum.Eunit, 3, 4, 3, 5), 16))
			return out
		},
	})
}
