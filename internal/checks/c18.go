package checks

import (
	"bytes"
	"encoding/json"
	"fmt"
	"os"
	"os/exec"
	"path/filepath"
	"strconv"
	"strings"
	"sync"

	"verif/internal/drv"
	"verif/internal/instr"
)

func c18Solo() []string {
	out := make([]string, len(c18Calls))
	for i, c := range c18Calls {
		out[i] = c.f()
	}
	return out
}

// c18Scenarios: thread -> list of call indices; plus preemption bound and the cap on recorded scheduling points.
func c18Scenarios(tier string) (scns [][][]int, bound, maxPoints int) {
	n := len(c18Calls)
	for i := 0; i < n; i++ {
		for j := 0; j < n; j++ {
			scns = append(scns, [][]int{{i}, {j}})
		}
	}
	for i := 0; i < n; i++ {
		j := (i + 3) % n
		scns = append(scns, [][]int{{i, j}, {j, i}})
	}
	if tier == "quick" {
		return scns, 2, 24
	}
	for i := 0; i < n; i++ {
		for j := 0; j < n; j++ {
			for k := j; k < n; k++ {
				scns = append(scns, [][]int{{i}, {j}, {k}})
			}
		}
	}
	return scns, 2, 36
}

// c18RaceMain: "vcheck c18race <tier> <lo> <hi>" (binary built with -race): every ordered pair (and, for the
// thorough tier, triple) of alphabet calls is started behind a barrier with no synchronisation until the
// join; the goroutines share nothing but the read-only inputs, so any two conflicting accesses are
// unordered in every run and the detector's verdict does not depend on timing.
func c18RaceMain(args []string) int {
	tier := args[0]
	lo, _ := strconv.Atoi(args[1])
	hi, _ := strconv.Atoi(args[2])
	solo := c18Solo()
	snap := c18Snapshot()
	n := len(c18Calls)
	var groups [][]int
	for i := 0; i < n; i++ {
		for j := 0; j < n; j++ {
			groups = append(groups, []int{i, j})
		}
	}
	if tier == "thorough" {
		for i := 0; i < n; i++ {
			for j := i; j < n; j++ {
				for k := j; k < n; k++ {
					groups = append(groups, []int{i, j, k})
				}
			}
		}
	}
	reps := 20
	type outT struct {
		Groups     int      `json:"groups"`
		Runs       int      `json:"concurrent_runs"`
		Mismatches []string `json:"mismatches"`
	}
	out := outT{}
	drv.StartWatchdog()
	for gi := lo; gi < hi && gi < len(groups); gi++ {
		g := groups[gi]
		out.Groups++
		fmt.Fprintf(os.Stderr, "AT group %d %v\n", gi, g)
		drv.WatchdogBegin("c18race group", uint64(gi))
		for r := 0; r < reps; r++ {
			start := make(chan struct{})
			var wg sync.WaitGroup
			res := make([]string, len(g))
			for t, ci := range g {
				t, ci := t, ci
				wg.Add(1)
				go func() {
					defer wg.Done()
					defer func() {
						if rec := recover(); rec != nil {
							res[t] = fmt.Sprintf("panic: %v", rec)
						}
					}()
					<-start
					res[t] = c18Calls[ci].f()
				}()
			}
			close(start)
			wg.Wait()
			out.Runs++
			for t, ci := range g {
				if res[t] != solo[ci] && len(out.Mismatches) < 5 {
					out.Mismatches = append(out.Mismatches, fmt.Sprintf("calls %v run concurrently: %s returned %.200s; alone it returns %.200s", g, c18Calls[ci].name, res[t], solo[ci]))
				}
			}
			if s := c18Snapshot(); s != snap && len(out.Mismatches) < 5 {
				out.Mismatches = append(out.Mismatches, "a shared read-only input was modified: "+s)
			}
		}
	}
	b, _ := json.Marshal(out)
	fmt.Println(string(b))
	return 0
}

func c18NumRaceGroups(tier string) int {
	n := len(c18Calls)
	g := n * n
	if tier == "thorough" {
		g += n * (n + 1) * (n + 2) / 6
	}
	return g
}

func goEnv() []string {
	return append(os.Environ(), "GOFLAGS=-mod=mod", "GOPROXY=off", "GOSUMDB=off", "GOTOOLCHAIN=local")
}

func c18Build(env *drv.Env, work string) (explorer, racer string, rep *instr.Report, err error) {
	repo := "/repo"
	ov, rep, err := instr.Instrument(repo, work)
	if err != nil {
		return "", "", nil, fmt.Errorf("instrumenter: %v", err)
	}
	goBin := os.Getenv("VERIF_GO")
	if goBin == "" {
		goBin = "go1.26"
	}
	explorer, racer = filepath.Join(work, "vcheck-c18"), filepath.Join(work, "vcheck-race")
	var wg sync.WaitGroup
	var e1, e2 error
	var o1, o2 []byte
	wg.Add(2)
	go func() {
		defer wg.Done()
		cmd := exec.Command(goBin, "build", "-tags", "verif c18", "-overlay", ov, "-o", explorer, "./cmd/vcheck")
		cmd.Dir, cmd.Env = env.VerifDir, append(goEnv(), "CGO_ENABLED=0")
		o1, e1 = cmd.CombinedOutput()
	}()
	go func() {
		defer wg.Done()
		args := []string{"build", "-race", "-tags", "verif"}
		if dev := os.Getenv("VERIF_OVERLAY"); dev != "" {
			args = append(args, "-overlay", dev)
		}
		args = append(args, "-o", racer, "./cmd/vcheck")
		cmd := exec.Command(goBin, args...)
		cmd.Dir, cmd.Env = env.VerifDir, append(goEnv(), "CGO_ENABLED=1")
		o2, e2 = cmd.CombinedOutput()
	}()
	wg.Wait()
	if e1 != nil {
		return "", "", rep, fmt.Errorf("instrumented build failed: %v: %.600s", e1, o1)
	}
	if e2 != nil {
		return "", "", rep, fmt.Errorf("-race build failed: %v: %.600s", e2, o2)
	}
	return explorer, racer, rep, nil
}

func c18Custom(env *drv.Env) *drv.Summary {
	sum := &drv.Summary{Counters: map[string]uint64{}, ViolCases: map[string][]uint64{}, Exhaustive: true, Extra: map[string]any{}}
	work := filepath.Join(env.VerifDir, ".work", fmt.Sprintf("c18-%d", os.Getpid()))
	os.MkdirAll(work, 0o755)
	defer os.RemoveAll(work)
	explorer, racer, rep, err := c18Build(env, work)
	if rep != nil {
		sum.Extra["static_side_condition"] = rep
	}
	if err != nil {
		sum.Internal = append(sum.Internal, err.Error())
		return sum
	}
	scns, bound, maxPoints := c18Scenarios(env.Tier)
	addViol := func(kind, detail string, replay any) {
		if len(sum.Viol) >= 10 {
			return
		}
		sum.Extra["replay:"+fmt.Sprint(len(sum.Viol))] = replay
		sum.Viol = append(sum.Viol, drv.Violation{Scope: "C18", Index: uint64(len(sum.Viol)), Kind: kind, Detail: detail})
		sum.ViolCount++
	}
	// (A) exhaustive interleavings within the preemption bound
	nw := env.Workers
	chunk := (len(scns) + nw - 1) / nw
	var mu sync.Mutex
	var wg sync.WaitGroup
	var tot c18ExploreOutLite
	for w := 0; w < nw; w++ {
		lo, hi := w*chunk, min((w+1)*chunk, len(scns))
		if lo >= hi {
			continue
		}
		wg.Add(1)
		go func() {
			defer wg.Done()
			cmd := exec.Command(explorer, "c18explore", env.Tier, fmt.Sprint(lo), fmt.Sprint(hi))
			cmd.Env = append(os.Environ(), "GOMAXPROCS=2")
			var stderr bytes.Buffer
			cmd.Stderr = &stderr
			outb, err := cmd.Output()
			mu.Lock()
			defer mu.Unlock()
			var o c18ExploreOutLite
			if err != nil || json.Unmarshal(bytes.TrimSpace(outb), &o) != nil {
				addViol("explorer-crash", fmt.Sprintf("schedule explorer process for scenarios %d..%d died: %v: %.600s", lo, hi, err, stderr.String()), map[string]any{"scenarios": []int{lo, hi}})
				return
			}
			tot.Scenarios += o.Scenarios
			tot.Executions += o.Executions
			tot.Points += o.Points
			tot.Switches += o.Switches
			tot.Outcomes += o.Outcomes
			if o.MaxPoints > tot.MaxPoints {
				tot.MaxPoints = o.MaxPoints
			}
			if tot.Sample == nil {
				tot.Sample = o.Sample
			}
			for i, v := range o.Violations {
				var rp any
				if i < len(o.ReplayFiles) {
					rp = o.ReplayFiles[i]
				}
				addViol("interleaving", v, rp)
			}
			for _, d := range o.Divergence {
				sum.Internal = append(sum.Internal, "schedule replay not deterministic: "+d)
			}
		}()
	}
	wg.Wait()
	// (B) happens-before race detection, free running
	ng := c18NumRaceGroups(env.Tier)
	rchunk := (ng + nw/2 - 1) / (nw / 2)
	raceRuns, raceGroups := 0, 0
	for lo := 0; lo < ng; lo += rchunk {
		lo, hi := lo, min(lo+rchunk, ng)
		wg.Add(1)
		go func() {
			defer wg.Done()
			cmd := exec.Command(racer, "c18race", env.Tier, fmt.Sprint(lo), fmt.Sprint(hi))
			cmd.Env = append(os.Environ(), "GORACE=halt_on_error=0 exitcode=66")
			var stderr bytes.Buffer
			cmd.Stderr = &stderr
			outb, err := cmd.Output()
			mu.Lock()
			defer mu.Unlock()
			var o struct {
				Groups     int      `json:"groups"`
				Runs       int      `json:"concurrent_runs"`
				Mismatches []string `json:"mismatches"`
			}
			json.Unmarshal(bytes.TrimSpace(outb), &o)
			raceRuns += o.Runs
			raceGroups += o.Groups
			se := stderr.String()
			if i := strings.Index(se, "WARNING: DATA RACE"); i >= 0 {
				rpt := se[i:]
				if len(rpt) > 3000 {
					rpt = rpt[:3000]
				}
				addViol("data-race", fmt.Sprintf("race detector report while running call groups %d..%d concurrently (%d reports): %s", lo, hi, strings.Count(se, "WARNING: DATA RACE"), firstLines(rpt, 14)), map[string]any{"race_groups": []int{lo, hi}, "report": rpt})
			} else if err != nil {
				msg := se
				if len(msg) > 1500 {
					msg = msg[len(msg)-1500:]
				}
				addViol("concurrent-crash", fmt.Sprintf("free-running concurrent calls (groups %d..%d) crashed: %v: %s", lo, hi, err, msg), map[string]any{"race_groups": []int{lo, hi}})
			}
			for _, m := range o.Mismatches {
				addViol("concurrent-result", m, map[string]any{"race_groups": []int{lo, hi}})
			}
		}()
	}
	wg.Wait()
	sum.States = uint64(tot.Scenarios + raceGroups)
	sum.Transitions = tot.Executions + uint64(raceRuns)
	sum.Validated = sum.Transitions
	sum.Evaluations = sum.Transitions
	sum.Nontrivial = tot.Switches
	sum.Distinct = uint64(tot.Outcomes)
	sum.Samples = append(sum.Samples, tot.Sample, map[string]any{"race pass": fmt.Sprintf("%d call groups x 20 concurrent runs", raceGroups)})
	sum.Extra["schedule_exploration"] = map[string]any{"scenarios": tot.Scenarios, "schedules_executed": tot.Executions, "scheduling_points": tot.Points,
		"preemption_bound_completed": bound, "max_recorded_points_per_execution": maxPoints, "max_points_seen": tot.MaxPoints,
		"schedules_with_a_preemption": tot.Switches, "distinct_outcomes": tot.Outcomes}
	sum.Extra["race_pass"] = map[string]any{"call_groups": raceGroups, "concurrent_runs": raceRuns}
	if tot.Scenarios != len(scns) {
		sum.Exhaustive = false
	}
	if tot.Switches == 0 {
		sum.Internal = append(sum.Internal, "vacuity guard: no explored schedule contained a preemption inside a call")
	}
	if tot.Outcomes < len(scns) {
		sum.Internal = append(sum.Internal, fmt.Sprintf("vacuity guard: %d distinct outcomes for %d scenarios", tot.Outcomes, len(scns)))
	}
	fmt.Fprintf(env.Log, "  schedule exploration: scenarios=%d schedules=%d points=%d with-preemption=%d bound=%d; race pass: groups=%d runs=%d; package-level vars=%v writers=%v yield sites=%d\n",
		tot.Scenarios, tot.Executions, tot.Points, tot.Switches, bound, raceGroups, raceRuns, rep.PackageVars, rep.Writers, rep.YieldSites)
	return sum
}

type c18ExploreOutLite struct {
	Scenarios   int      `json:"scenarios"`
	Executions  uint64   `json:"executions"`
	Points      uint64   `json:"scheduling_points"`
	Switches    uint64   `json:"executions_with_a_context_switch_inside_a_call"`
	MaxPoints   int      `json:"max_points_in_one_execution"`
	Outcomes    int      `json:"distinct_outcomes"`
	Violations  []string `json:"violations"`
	ReplayFiles []any    `json:"replays"`
	Divergence  []string `json:"replay_divergence"`
	Sample      any      `json:"sample"`
}

func firstLines(s string, n int) string {
	ls := strings.Split(s, "\n")
	if len(ls) > n {
		ls = ls[:n]
	}
	return strings.Join(ls, " | ")
}

func c18Replay(rp drv.Replay) int {
	var raw struct {
		Scenario   [][]int `json:"scenario"`
		Schedule   []int   `json:"schedule"`
		RaceGroups []int   `json:"race_groups"`
		Report     string  `json:"report"`
	}
	json.Unmarshal(rp.Custom, &raw)
	verifDir := os.Getenv("VERIF_DIR")
	if verifDir == "" {
		verifDir = "/verif"
	}
	env := &drv.Env{VerifDir: verifDir, Tier: rp.Tier}
	work := filepath.Join(verifDir, ".work", fmt.Sprintf("c18r-%d", os.Getpid()))
	os.MkdirAll(work, 0o755)
	defer os.RemoveAll(work)
	explorer, racer, _, err := c18Build(env, work)
	if err != nil {
		fmt.Fprintln(os.Stderr, err)
		return 2
	}
	if raw.Scenario != nil {
		b, _ := json.Marshal(map[string]any{"scenario": raw.Scenario, "schedule": raw.Schedule})
		cmd := exec.Command(explorer, "c18explore", rp.Tier, "0", "0", string(b))
		cmd.Stdout, cmd.Stderr = os.Stdout, os.Stderr
		if err := cmd.Run(); err != nil {
			return 1
		}
		fmt.Println("no violation on this tree")
		return 0
	}
	if len(raw.RaceGroups) == 2 {
		cmd := exec.Command(racer, "c18race", rp.Tier, fmt.Sprint(raw.RaceGroups[0]), fmt.Sprint(raw.RaceGroups[1]))
		cmd.Env = append(os.Environ(), "GORACE=halt_on_error=0 exitcode=66")
		var stderr bytes.Buffer
		cmd.Stderr = &stderr
		out, err := cmd.Output()
		fmt.Println(string(out))
		if strings.Contains(stderr.String(), "DATA RACE") || err != nil || strings.Contains(string(out), "run concurrently") {
			fmt.Printf("VIOLATION property=C18 replay=(file)\n  %s\n", firstLines(stderr.String(), 20))
			return 1
		}
		fmt.Println("no violation on this tree")
		return 0
	}
	return 2
}

func init() {
	drv.Register(&drv.Check{
		ID:    "C18",
		Title: "Independent calls are safe to run concurrently",
		Rule: "two complementary deciders over the same 23-call harness alphabet (boolean flat/tree/D, inflate polygon/open with differing delta and arc tolerance, rectangle clipping of polygons and lines with three different rectangles, Minkowski sum and two differences sharing one pattern, simplify, trim/area/point-in-polygon, ClipperD and ClipperOffset objects, two ClipperOffset objects with delta callbacks returning different deltas, two tree differences of touching figures plus direct containment tests, two SimplifyPath64 calls on 300-vertex paths) on shared read-only inputs and distinct objects: " +
			"(A) exhaustive schedule exploration: an AST instrumenter derives scheduling points from the current tree (before every statement touching a package-level variable, at entry/exit of every exported function, at the head of the engines' outermost loops) and feeds the rewritten files to go build -overlay; a cooperative scheduler runs one thread at a time and a deviation-bounded DFS (iterated preemption bound, canonical enabled order) executes every schedule of every scenario (all ordered pairs of calls, two-call threads, triples in the thorough tier) within the bound; oracle per schedule: every call returns exactly its solo result, shared inputs unchanged; one schedule per scenario is replayed and must reproduce. " +
			"(B) the same bodies free-running in a -race build behind a barrier, every ordered pair (thorough: triple) x 20 runs: any race report, crash or result mismatch is a violation. non-trivial = explored schedules with at least one preemption inside a call",
		Assumptions: []string{"scheduling points exist only where the instrumenter puts them; memory interference not reachable from a package-level variable is left to the race pass", "at most 24 (quick) / 36 (thorough) recorded scheduling points per execution, preemption bound 2"},
		Custom:      c18Custom,
		Scopes:      func(string) []*drv.Scope { return nil },
	})
	drv.RegisterCustomReplay("C18", c18Replay)
	drv.Subcommands["c18race"] = c18RaceMain
}
