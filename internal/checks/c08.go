package checks

import (
	"fmt"
	"math"

	clipper "github.com/bolom009/go-clipper2"

	"verif/internal/drv"
	"verif/internal/enum"
	"verif/internal/oracle"
)

type quadF struct {
	p                      [4][2]float64
	area                   float64
	minX, minY, maxX, maxY float64
}

// minkowskiQuads builds the reference parallelograms: path edge (+) pattern edge (pattern negated for Diff).
func minkowskiQuads(pattern, path Path, isSum, closed bool) []quadF {
	var out []quadF
	np, nq := len(pattern), len(path)
	if np == 0 || nq == 0 {
		return nil
	}
	sgn := 1.0
	if !isSum {
		sgn = -1
	}
	last := nq
	if !closed {
		last = nq - 1
	}
	for i := 0; i < last; i++ {
		b0, b1 := path[i], path[(i+1)%nq]
		for j := 0; j < np; j++ {
			a0, a1 := pattern[j], pattern[(j+1)%np]
			var q quadF
			q.p[0] = [2]float64{float64(b0.X) + sgn*float64(a0.X), float64(b0.Y) + sgn*float64(a0.Y)}
			q.p[1] = [2]float64{float64(b1.X) + sgn*float64(a0.X), float64(b1.Y) + sgn*float64(a0.Y)}
			q.p[2] = [2]float64{float64(b1.X) + sgn*float64(a1.X), float64(b1.Y) + sgn*float64(a1.Y)}
			q.p[3] = [2]float64{float64(b0.X) + sgn*float64(a1.X), float64(b0.Y) + sgn*float64(a1.Y)}
			q.minX, q.minY, q.maxX, q.maxY = math.Inf(1), math.Inf(1), math.Inf(-1), math.Inf(-1)
			for k := 0; k < 4; k++ {
				a, b := q.p[k], q.p[(k+1)%4]
				q.area += a[0]*b[1] - a[1]*b[0]
				q.minX, q.maxX = math.Min(q.minX, a[0]), math.Max(q.maxX, a[0])
				q.minY, q.maxY = math.Min(q.minY, a[1]), math.Max(q.maxY, a[1])
			}
			out = append(out, q)
		}
	}
	return out
}

func distSegF(px, py float64, a, b [2]float64) float64 {
	dx, dy := b[0]-a[0], b[1]-a[1]
	if dx == 0 && dy == 0 {
		return math.Hypot(px-a[0], py-a[1])
	}
	t := ((px-a[0])*dx + (py-a[1])*dy) / (dx*dx + dy*dy)
	t = math.Max(0, math.Min(1, t))
	return math.Hypot(px-(a[0]+t*dx), py-(a[1]+t*dy))
}

// classify returns +1 if (px,py) is inside some parallelogram at depth > 2, -1 if it is farther than 2
// from every parallelogram, 0 otherwise (the answer is not stable over the 2-unit neighbourhood).
func classifyQuads(qs []quadF, px, py float64) int {
	const g = 1e-6
	near := false
	for i := range qs {
		q := &qs[i]
		if px < q.minX-2.001 || px > q.maxX+2.001 || py < q.minY-2.001 || py > q.maxY+2.001 {
			continue // farther than 2 from this parallelogram
		}
		dEdge := math.Inf(1)
		for k := 0; k < 4; k++ {
			if v := distSegF(px, py, q.p[k], q.p[(k+1)%4]); v < dEdge {
				dEdge = v
			}
		}
		inside := false
		if math.Abs(q.area) > 1e-9 {
			pos, negc := 0, 0
			for k := 0; k < 4; k++ {
				a, b := q.p[k], q.p[(k+1)%4]
				cr := (b[0]-a[0])*(py-a[1]) - (b[1]-a[1])*(px-a[0])
				if cr > 0 {
					pos++
				} else if cr < 0 {
					negc++
				}
			}
			inside = pos == 0 || negc == 0
		}
		if inside && dEdge > 2+g {
			return 1
		}
		if inside || dEdge <= 2+g {
			near = true
		}
	}
	if near {
		return 0
	}
	return -1
}

func c08Check(w *offWorker, pattern, path Path, isSum, closed bool, out Paths) (string, string, bool) {
	if sd := structuralDefect(out); sd != "" {
		return "degenerate-path", sd, false
	}
	qs := minkowskiQuads(pattern, path, isSum, closed)
	minX, minY, maxX, maxY := math.Inf(1), math.Inf(1), math.Inf(-1), math.Inf(-1)
	for i := range qs {
		for k := 0; k < 4; k++ {
			minX, maxX = math.Min(minX, qs[i].p[k][0]), math.Max(maxX, qs[i].p[k][0])
			minY, maxY = math.Min(minY, qs[i].p[k][1]), math.Max(maxY, qs[i].p[k][1])
		}
	}
	ox0, oy0, ox1, oy1, ok := oracle.Bounds(out)
	if len(qs) == 0 {
		if ok {
			return "not-empty", fmt.Sprintf("nothing is swept (empty pattern or no path edge) but the result is %v", out), false
		}
		return "", "", false
	}
	bx0, by0, bx1, by1 := int64(math.Floor(minX)), int64(math.Floor(minY)), int64(math.Ceil(maxX)), int64(math.Ceil(maxY))
	if ok {
		bx0, by0, bx1, by1 = min(bx0, ox0), min(by0, oy0), max(bx1, ox1), max(by1, oy1)
	}
	grid := oracle.NewGrid(bx0, by0, bx1, by1, 4, 4, 4)
	n := grid.N()
	w.wout, w.on = fit16(w.wout, n), fitB(w.on, n)
	if cap(w.diff) < n+1 {
		w.diff = make([]int32, n+1)
	}
	w.diff = w.diff[:n+1]
	grid.Wind(out, w.wout, w.on, w.diff)
	sawInside := false
	for i := 0; i < n; i++ {
		if w.on[i] {
			continue
		}
		wo := w.wout[i]
		px, py := float64(grid.WX(i%grid.NX))/4, float64(grid.WY(i/grid.NX))/4
		if wo < 0 || wo > 1 {
			if grid.FarFromEdges(grid.WX(i%grid.NX), grid.WY(i/grid.NX), 2, true, out) {
				return "winding", fmt.Sprintf("result winding number %d at (%g,%g), > 2 units from every result edge", wo, px, py), sawInside
			}
			continue
		}
		cls := classifyQuads(qs, px, py)
		if cls == 1 {
			sawInside = true
			if wo == 0 {
				return "not-covered", fmt.Sprintf("point (%g,%g): the translated pattern boundary meets the path there and throughout its 2-unit neighbourhood, but the point is outside the result", px, py), sawInside
			}
		} else if cls == -1 && wo != 0 {
			return "wrongly-covered", fmt.Sprintf("point (%g,%g) is more than 2 units from everything the pattern boundary sweeps, but inside the result", px, py), sawInside
		}
	}
	return "", "", sawInside
}

func c08Scope(name string, pe enum.Embed, patN int, patStride uint64, qe enum.Embed, pathN int, pathClosed bool, pathStride uint64, level int) *drv.Scope {
	var w offWorker
	var pb, qb Path
	nPat := (enum.PathCount(3, patN) + patStride - 1) / patStride
	nPath := (enum.PathCount(3, pathN) + pathStride - 1) / pathStride
	return &drv.Scope{Name: name, Level: level, Size: nPat * nPath,
		Show: func(idx uint64) any {
			return map[string]any{"pattern": pathLit(enum.UnrankPath(idx%nPat*patStride, 3, patN, pe, nil)), "path": pathLit(enum.UnrankPath(idx/nPat*pathStride, 3, pathN, qe, nil)), "path closed": pathClosed, "operations": "MinkowskiSum64 and MinkowskiDiff64"}
		},
		Run: func(c *drv.Ctx, idx uint64) {
			pb = enum.UnrankPath(idx%nPat*patStride, 3, patN, pe, pb)
			qb = enum.UnrankPath(idx/nPat*pathStride, 3, pathN, qe, qb)
			nt := false
			for _, isSum := range []bool{true, false} {
				var out Paths
				opn := "MinkowskiDiff64"
				if isSum {
					out = clipper.MinkowskiSum64(pb, qb, pathClosed)
					opn = "MinkowskiSum64"
				} else {
					out = clipper.MinkowskiDiff64(pb, qb, pathClosed)
				}
				c.Exec(1)
				c.Output(enum.HashPaths(out))
				kind, detail, saw := c08Check(&w, pb, qb, isSum, pathClosed, out)
				if kind != "" {
					c.Fail(kind, opn, "%s(pattern=%v, path=%v, isClosed=%v): %s; result %v", opn, pb, qb, pathClosed, detail, out)
				}
				if saw {
					nt = true
				}
			}
			// for closed paths sum(A,B) and sum(B,A) describe the same region: both are held against the same (symmetric) oracle
			if pathClosed && len(pb) >= 3 && len(qb) >= 3 && idx%4 == 0 {
				out := clipper.MinkowskiSum64(qb, pb, true)
				c.Exec(1)
				if kind, detail, _ := c08Check(&w, qb, pb, true, true, out); kind != "" {
					c.Fail(kind, "MinkowskiSum64(swapped)", "MinkowskiSum64(pattern=%v, path=%v, closed) [arguments exchanged]: %s; result %v", qb, pb, detail, out)
				}
			}
			if nt {
				c.Nontriv()
				c.Count("inputs_with_a_robustly_swept_point", 1)
			}
		}}
}

// c08ShiftScope: the same small patterns and paths, translated by large vectors of both signs (pattern by t1,
// path by t2; integer translation is exact). The result, translated back by t2+t1 (Sum) or t2-t1 (Diff), is held
// against the same oracle on the base input: the sweep, the quad orientation tests and the union inside the
// Minkowski functions must not depend on where the figures sit, as long as the coordinate sums stay in range.
func c08ShiftScope(name string, pe enum.Embed, patN int, patStride uint64, qe enum.Embed, pathN int, pathClosed bool, pathStride uint64, shifts [][4]int64, level int) *drv.Scope {
	var w offWorker
	var pb, qb, pt, qt Path
	nPat := (enum.PathCount(3, patN) + patStride - 1) / patStride
	nPath := (enum.PathCount(3, pathN) + pathStride - 1) / pathStride
	per := nPat * nPath
	shift := func(dst, src Path, dx, dy int64) Path {
		dst = dst[:0]
		for _, p := range src {
			dst = append(dst, Pt{X: p.X + dx, Y: p.Y + dy})
		}
		return dst
	}
	return &drv.Scope{Name: name, Level: level, Size: per * uint64(len(shifts)),
		Show: func(idx uint64) any {
			sh := shifts[idx/per]
			return map[string]any{"pattern (before translation)": pathLit(enum.UnrankPath(idx%per%nPat*patStride, 3, patN, pe, nil)), "path (before translation)": pathLit(enum.UnrankPath(idx%per/nPat*pathStride, 3, pathN, qe, nil)),
				"pattern translated by": []int64{sh[0], sh[1]}, "path translated by": []int64{sh[2], sh[3]}, "path closed": pathClosed, "operations": "MinkowskiSum64 and MinkowskiDiff64"}
		},
		Run: func(c *drv.Ctx, idx uint64) {
			sh := shifts[idx/per]
			pb = enum.UnrankPath(idx%per%nPat*patStride, 3, patN, pe, pb)
			qb = enum.UnrankPath(idx%per/nPat*pathStride, 3, pathN, qe, qb)
			pt, qt = shift(pt, pb, sh[0], sh[1]), shift(qt, qb, sh[2], sh[3])
			nt := false
			for _, isSum := range []bool{true, false} {
				var out Paths
				opn := "MinkowskiDiff64"
				bx, by := sh[2]-sh[0], sh[3]-sh[1]
				if isSum {
					out = clipper.MinkowskiSum64(pt, qt, pathClosed)
					opn = "MinkowskiSum64"
					bx, by = sh[2]+sh[0], sh[3]+sh[1]
				} else {
					out = clipper.MinkowskiDiff64(pt, qt, pathClosed)
				}
				c.Exec(1)
				c.Output(enum.HashPaths(out))
				back := make(Paths, len(out))
				for i, p := range out {
					back[i] = shift(nil, p, -bx, -by)
				}
				kind, detail, saw := c08Check(&w, pb, qb, isSum, pathClosed, back)
				if kind != "" {
					c.Fail(kind, opn, "%s(pattern=%v, path=%v, isClosed=%v) [pattern %v translated by (%d,%d), path %v by (%d,%d)]; after translating the result back by (%d,%d): %s; result %v", opn, pt, qt, pathClosed, pb, sh[0], sh[1], qb, sh[2], sh[3], -bx, -by, detail, out)
				}
				if saw {
					nt = true
				}
			}
			if nt {
				c.Nontriv()
				c.Count("inputs_with_a_robustly_swept_point", 1)
			}
		}}
}

// translations (pattern dx,dy, path dx,dy): every coordinate, sum and difference of coordinates stays within 2^52,
// the bound up to which C13 promises translation covariance (beyond it the engine's float64 steps lose the units digit:
// with sums at 2^60 the results are visibly wrong, which the statement's "coordinate sums stay in range" does not cover)
var c08Shifts = [][4]int64{
	{-1000, 700, -3000, -2000},                           // both signs, small
	{1<<31 + 3, -(1 << 32) - 5, -(1 << 33) + 7, 1 << 31}, // products of coordinates leave int64
	{-(1 << 45) + 1, 1<<44 + 9, 1<<46 + 3, -(1 << 45) - 11},
	{1<<51 - 1, -(1 << 51) + 1, -(1 << 51) + 3, 1<<51 - 5},   // differences at 2^52, sums small
	{1<<51 - 100, -(1 << 51), 1<<51 - 101, -(1 << 51) + 101}, // sums at 2^52, differences small
}

// c08ScaleScope: pattern and path multiplied by the same integer factor k (coordinate differences of 2e9 ... 2^60, where
// products of differences leave int64 and then float64's 53 bits). The base oracle classifies integer base points; a
// point robustly swept (depth > 2 in the base, hence > 2k after scaling) must have winding 1 at its image in the scaled
// result, a point farther than 2 from everything swept winding 0 - exact 128-bit winding of the scaled result.
func c08ScaleScope(name string, pe enum.Embed, patN int, patStride uint64, qe enum.Embed, pathN int, pathClosed bool, pathStride uint64, factors []int64, level int) *drv.Scope {
	var pb, qb, pt, qt Path
	nPat := (enum.PathCount(3, patN) + patStride - 1) / patStride
	nPath := (enum.PathCount(3, pathN) + pathStride - 1) / pathStride
	per := nPat * nPath
	scale := func(dst, src Path, k int64) Path {
		dst = dst[:0]
		for _, p := range src {
			dst = append(dst, Pt{X: p.X * k, Y: p.Y * k})
		}
		return dst
	}
	return &drv.Scope{Name: name, Level: level, Size: per * uint64(len(factors)),
		Show: func(idx uint64) any {
			return map[string]any{"pattern (before scaling)": pathLit(enum.UnrankPath(idx%per%nPat*patStride, 3, patN, pe, nil)), "path (before scaling)": pathLit(enum.UnrankPath(idx%per/nPat*pathStride, 3, pathN, qe, nil)),
				"both scaled by": factors[idx/per], "path closed": pathClosed, "operations": "MinkowskiSum64 and MinkowskiDiff64"}
		},
		Run: func(c *drv.Ctx, idx uint64) {
			k := factors[idx/per]
			pb = enum.UnrankPath(idx%per%nPat*patStride, 3, patN, pe, pb)
			qb = enum.UnrankPath(idx%per/nPat*pathStride, 3, pathN, qe, qb)
			pt, qt = scale(pt, pb, k), scale(qt, qb, k)
			nt := false
			for _, isSum := range []bool{true, false} {
				var out Paths
				opn := "MinkowskiDiff64"
				if isSum {
					out = clipper.MinkowskiSum64(pt, qt, pathClosed)
					opn = "MinkowskiSum64"
				} else {
					out = clipper.MinkowskiDiff64(pt, qt, pathClosed)
				}
				c.Exec(1)
				c.Output(enum.HashPaths(out))
				qs := minkowskiQuads(pb, qb, isSum, pathClosed)
				if len(qs) == 0 {
					if len(out) != 0 {
						c.Fail("not-empty", opn, "%s(pattern=%v, path=%v, isClosed=%v): nothing is swept but the result is %v", opn, pt, qt, pathClosed, out)
					}
					continue
				}
				minX, minY, maxX, maxY := math.Inf(1), math.Inf(1), math.Inf(-1), math.Inf(-1)
				for i := range qs {
					minX, maxX = math.Min(minX, qs[i].minX), math.Max(maxX, qs[i].maxX)
					minY, maxY = math.Min(minY, qs[i].minY), math.Max(maxY, qs[i].maxY)
				}
			scan:
				for y := int64(minY) - 3; y <= int64(maxY)+3; y++ {
					for x := int64(minX) - 3; x <= int64(maxX)+3; x++ {
						cls := classifyQuads(qs, float64(x), float64(y))
						if cls == 0 {
							continue
						}
						w, on := windExact(out, x*k, y*k)
						if on {
							continue
						}
						if cls == 1 {
							nt = true
						}
						if cls == 1 && w != 1 || cls == -1 && w != 0 {
							c.Fail("scaled-winding", opn, "%s(pattern=%v, path=%v, isClosed=%v) [pattern %v and path %v scaled by %d]: the result has winding %d at (%d,%d), the image of the base point (%d,%d), which is %s; result %v", opn, pt, qt, pathClosed, pb, qb, k, w, x*k, y*k, x, y,
								map[int]string{1: "swept throughout its 2-unit neighbourhood (expected 1)", -1: "more than 2 units from everything swept (expected 0)"}[cls], out)
							break scan
						}
					}
				}
			}
			if nt {
				c.Nontriv()
				c.Count("inputs_with_a_robustly_swept_point", 1)
			}
		}}
}

var c08Factors = []int64{107374183, 1<<31 + 11, 1 << 40, 1 << 54}

func init() {
	drv.Register(&drv.Check{
		ID:    "C08",
		Title: "Minkowski sum and difference cover exactly the swept region",
		Rule: "patterns of P(3,3) and P(3,4) (convex, concave, degenerate, both orientations) under stride-10 axis-aligned / sheared embeddings x paths over a stride-20 lattice: open polylines of 1-3 points and closed paths of 3-4 points, x {Sum, Diff} (and Sum with the arguments exchanged for closed paths); " +
			"reference: the union of the parallelograms (path edge + (-)pattern edge), i.e. the set of points where the translated (reflected) pattern boundary meets the path; a witness inside one parallelogram at depth > 2 must be inside the result, a witness farther than 2 units from every parallelogram must be outside (a sound subset of 'same answer throughout the 2-unit neighbourhood'); result canonical (>= 3 vertices, no repeats, winding in {0,1}). non-trivial = input with a witness that is robustly swept",
		Assumptions:      []string{"patterns <= 4 vertices, paths <= 4 points; float64 point-to-parallelogram distances with 1e-6 guard on coordinates < 2^12; witness pitch 1"},
		RequiredCounters: []string{"inputs_with_a_robustly_swept_point"},
		Scopes: func(tier string) []*drv.Scope {
			var out []*drv.Scope
			if tier == "quick" {
				// strides are coprime to 9, so no vertex of the selected patterns / paths is pinned to lattice point 0
				out = append(out,
					c08Scope("minkowski/P(3,3)/E_ax x open 2-point paths/E_ax20", enum.Eax, 3, 1, enum.Eax20, 2, false, 1, 1),
					c08Scope("minkowski/every 4th of P(3,3)/E_sh x open 3-point paths (every 4th)/E_ax20", enum.Esh, 3, 4, enum.Eax20, 3, false, 4, 2),
					c08Scope("minkowski/every 4th of P(3,3)/E_ax x closed triangles (every 4th)/E_sh20", enum.Eax, 3, 4, enum.Esh20, 3, true, 4, 2),
					c08Scope("minkowski/every 28th of P(3,4)/E_ax x closed triangles (every 10th)/E_ax20", enum.Eax, 4, 28, enum.Eax20, 3, true, 10, 3),
					c08Scope("minkowski/every 10th of P(3,3)/E_ax x single points/E_ax20", enum.Eax, 3, 10, enum.Eax20, 1, false, 1, 1),
					// 4-point patterns include explicitly closed rings a,b,c,a (pattern[0] == pattern[last])
					c08Scope("minkowski/every 7th of P(3,4)/E_ax x open 2-point paths (every 5th)/E_ax20", enum.Eax, 4, 7, enum.Eax20, 2, false, 5, 3),
					c08ShiftScope("minkowski translated/every 7th of P(3,3)/E_sh x open 2-point paths (every 2nd)/E_ax20 x 5 translations", enum.Esh, 3, 7, enum.Eax20, 2, false, 2, c08Shifts, 2),
					c08ShiftScope("minkowski translated/every 10th of P(3,3)/E_ax x closed triangles (every 10th)/E_sh20 x 5 translations", enum.Eax, 3, 10, enum.Esh20, 3, true, 10, c08Shifts, 3),
					c08ScaleScope("minkowski scaled/every 7th of P(3,3)/E_sh x open 2-point paths (every 2nd)/E_ax20 x 4 factors", enum.Esh, 3, 7, enum.Eax20, 2, false, 2, c08Factors, 2),
					c08ScaleScope("minkowski scaled/every 10th of P(3,3)/E_ax x closed triangles (every 10th)/E_sh20 x 4 factors", enum.Eax, 3, 10, enum.Esh20, 3, true, 10, c08Factors, 3))
				return out
			}
			for _, pe := range []enum.Embed{enum.Eax, enum.Esh} {
				out = append(out,
					c08Scope("minkowski/P(3,3)/"+pe.Name+" x single points/E_ax20", pe, 3, 1, enum.Eax20, 1, false, 1, 1),
					c08Scope("minkowski/P(3,3)/"+pe.Name+" x open 2-point paths/E_ax20", pe, 3, 1, enum.Eax20, 2, false, 1, 1),
					c08Scope("minkowski/P(3,3)/"+pe.Name+" x open 3-point paths/E_ax20", pe, 3, 1, enum.Eax20, 3, false, 1, 2),
					c08Scope("minkowski/P(3,3)/"+pe.Name+" x closed triangles/E_sh20", pe, 3, 1, enum.Esh20, 3, true, 1, 2),
					c08Scope("minkowski/every 10th of P(3,4)/"+pe.Name+" x closed triangles/E_ax20", pe, 4, 10, enum.Eax20, 3, true, 1, 3),
					c08Scope("minkowski/P(3,4)/"+pe.Name+" x open 2-point paths/E_ax20", pe, 4, 1, enum.Eax20, 2, false, 1, 3),
					c08Scope("minkowski/P(3,3)/"+pe.Name+" x closed quads (every 28th)/E_ax20", pe, 3, 1, enum.Eax20, 4, true, 28, 3),
					c08ShiftScope("minkowski translated/every 7th of P(3,3)/"+pe.Name+" x open 2-point paths (every 2nd)/E_ax20 x 5 translations", pe, 3, 7, enum.Eax20, 2, false, 2, c08Shifts, 2),
					c08ShiftScope("minkowski translated/every 10th of P(3,3)/"+pe.Name+" x closed triangles (every 10th)/E_sh20 x 5 translations", pe, 3, 10, enum.Esh20, 3, true, 10, c08Shifts, 3),
					c08ScaleScope("minkowski scaled/every 7th of P(3,3)/"+pe.Name+" x open 2-point paths (every 2nd)/E_ax20 x 4 factors", pe, 3, 7, enum.Eax20, 2, false, 2, c08Factors, 2),
					c08ScaleScope("minkowski scaled/every 10th of P(3,3)/"+pe.Name+" x closed triangles (every 10th)/E_sh20 x 4 factors", pe, 3, 10, enum.Esh20, 3, true, 10, c08Factors, 3))
			}
			return out
		},
	})
}
