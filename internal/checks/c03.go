package checks

import (
	"errors"
	"fmt"
	"math"
	"runtime/debug"

	clipper "github.com/bolom009/go-clipper2"

	"verif/internal/drv"
	"verif/internal/enum"
)

// ---- argument alphabets ---------------------------------------------------------

// pathAlpha enumerates P(k,0) u P(k,1) u ... u P(k,maxN) under an embedding.
type pathAlpha struct {
	k, maxN int
	e       enum.Embed
	cum     []uint64
	stride  uint64 // 0/1: every member; s: every s-th member
}

// strided returns the alphabet holding every s-th member of a.
func (a *pathAlpha) strided(s uint64) *pathAlpha {
	b := *a
	b.stride = s
	return &b
}

func newPathAlpha(k, maxN int, e enum.Embed) *pathAlpha {
	a := &pathAlpha{k: k, maxN: maxN, e: e}
	t := uint64(0)
	for n := 0; n <= maxN; n++ {
		t += enum.PathCount(k, n)
		a.cum = append(a.cum, t)
	}
	return a
}

func (a *pathAlpha) size() uint64 {
	if a.stride > 1 {
		return (a.cum[len(a.cum)-1] + a.stride - 1) / a.stride
	}
	return a.cum[len(a.cum)-1]
}

func (a *pathAlpha) get(i uint64, buf Path) Path {
	if a.stride > 1 {
		i *= a.stride
	}
	prev := uint64(0)
	for n, c := range a.cum {
		if i < c {
			if n == 0 {
				return buf[:0]
			}
			return enum.UnrankPath(i-prev, a.k, n, a.e, buf)
		}
		prev = c
	}
	panic("pathAlpha index")
}

var (
	c03Deltas   = []float64{0, 0.4, -0.4, 0.5, -0.5, 1, -1, 3, -3, 1e3, -1e3, 1e9, -1e9}
	c03Miter    = []float64{0, 0.5, 2}
	c03Arc      = []float64{0, 0.25}
	c03Eps      = []float64{0, 0.5, 2, 1e9}
	c03ClipType = []clipper.ClipType{0, 1, 2, 3, 4, 5}
	c03FillRule = []clipper.FillRule{0, 1, 2, 3, 4}
)

// guard runs one library call; a panic is a violation unless it is the
// documented precision-range panic on a D entry point with a precision
// outside [-8, 8].
func guard(c *drv.Ctx, name string, allowPrecisionPanic bool, args func() string, f func()) (ok bool) {
	c.Exec(1)
	defer func() {
		if r := recover(); r != nil {
			ok = false
			if allowPrecisionPanic {
				if err, isErr := r.(error); isErr && errors.Is(err, clipper.ErrPrecisionRange) {
					c.Count("documented_precision_panics", 1)
					return
				}
			}
			st := debug.Stack()
			if len(st) > 1500 {
				st = st[:1500]
			}
			c.Fail("panic", name, "%s(%s) panicked: %v\n%s", name, args(), r, st)
		}
	}()
	f()
	return true
}

func walkTree(p *clipper.PolyPathBase, depth int) int {
	n := 0
	_ = p.IsHole()
	_ = p.Level()
	_ = p.Polygon()
	_ = p.Count()
	_ = p.Scale()
	for _, ch := range p.GetChildren() {
		n += 1 + walkTree(ch, depth+1)
	}
	return n
}

// c03BooleanBody: every boolean entry point on one (subject, clip) input; sb is the subject path used for AddPath.
func c03BooleanBody(c *drv.Ctx, S, C Paths, sb Path) {
	SD, CD := clipper.Paths64ToPathsD(S), clipper.PathsD(nil)
	if C != nil {
		CD = clipper.Paths64ToPathsD(C)
	}
	args := func() string { return fmt.Sprintf("subject=%v clip=%v", S, C) }
	interesting := false
	for _, ct := range c03ClipType {
		for _, fr := range c03FillRule {
			sub := func() string { return fmt.Sprintf("ct=%d fr=%d %s", ct, fr, args()) }
			guard(c, "BooleanOpPaths64", false, sub, func() {
				r := clipper.BooleanOpPaths64(ct, S, C, fr)
				c.Output(enum.HashPaths(r))
				if len(r) > 0 {
					interesting = true
				}
			})
			for open := 0; open < 2; open++ {
				guard(c, "Clipper64.ExecuteOC", false, sub, func() {
					e := clipper.NewClipper64()
					e.AddPaths(S, clipper.Subject, open == 1)
					if C != nil {
						e.AddPaths(C, clipper.Clip, false)
					}
					var cl, op Paths
					if !e.ExecuteOC(ct, fr, &cl, &op) {
						c.Fail("execute-false", "Clipper64.ExecuteOC", "ExecuteOC(ct=%d, fr=%d) returned false; openSubject=%v %s", ct, fr, open == 1, args())
					}
				})
			}
			if C != nil {
				// closed and open subjects in one engine: the clip set doubles as the open subject
				guard(c, "Clipper64.ExecuteOC(closed+open subjects)", false, sub, func() {
					e := clipper.NewClipper64()
					e.AddPaths(S, clipper.Subject, false)
					e.AddPaths(C, clipper.Subject, true)
					e.AddPaths(S, clipper.Subject, true)
					var cl, op Paths
					if !e.ExecuteOC(ct, fr, &cl, &op) {
						c.Fail("execute-false", "Clipper64.ExecuteOC(closed+open subjects)", "ExecuteOC(ct=%d, fr=%d) with closed and open subjects returned false; %s", ct, fr, args())
					}
				})
			}
			guard(c, "Clipper64.Execute", false, sub, func() {
				e := clipper.NewClipper64()
				e.AddPath(sb, clipper.Subject, false)
				if C != nil {
					e.AddPaths(C, clipper.Clip, false)
				}
				var cl Paths
				if !e.Execute(ct, fr, &cl) {
					c.Fail("execute-false", "Clipper64.Execute", "Execute(ct=%d, fr=%d) returned false; %s", ct, fr, args())
				}
			})
			guard(c, "Clipper64.ExecutePolyTree64", false, sub, func() {
				e := clipper.NewClipper64()
				e.AddPaths(S, clipper.Subject, false)
				if C != nil {
					e.AddPaths(C, clipper.Clip, false)
				}
				t := clipper.NewPolyTree64()
				var op clipper.PathsD
				if !e.ExecutePolyTree64(ct, fr, t, &op) {
					c.Fail("execute-false", "Clipper64.ExecutePolyTree64", "ExecutePolyTree64(ct=%d, fr=%d) returned false; %s", ct, fr, args())
				}
				walkTree(t.PolyPathBase, 0)
				_ = t.ToString()
			})
			if fr <= 3 && ct <= 4 && (ct+clipper.ClipType(fr))%3 == 0 {
				guard(c, "BooleanOpPolyTree64", false, sub, func() {
					t := clipper.BooleanOpPolyTree64(ct, S, C, fr)
					walkTree(t.PolyPathBase, 0)
				})
				guard(c, "BooleanOpPathsD", false, sub, func() { clipper.BooleanOpPathsD(ct, SD, CD, fr) })
				guard(c, "BooleanOpPolyTreeD", false, sub, func() {
					t := clipper.BooleanOpPolyTreeD(ct, SD, CD, fr, 1)
					walkTree(t.PolyPathBase, 0)
				})
				guard(c, "ClipperD.ExecuteOC/ExecutePolyTreeD", false, sub, func() {
					e := clipper.NewClipperD(3)
					e.AddPaths(SD, clipper.Subject, fr&1 == 1)
					if CD != nil {
						e.AddPaths(CD, clipper.Clip, false)
					}
					var cl, op clipper.PathsD
					if !e.ExecuteOC(ct, fr, &cl, &op) {
						c.Fail("execute-false", "ClipperD.ExecuteOC", "ClipperD.ExecuteOC(ct=%d, fr=%d) returned false; %s", ct, fr, args())
					}
					t := clipper.NewPolyTreeD()
					if !e.ExecutePolyTreeD(ct, fr, t, &op) {
						c.Fail("execute-false", "ClipperD.ExecutePolyTreeD", "ClipperD.ExecutePolyTreeD(ct=%d, fr=%d) returned false; %s", ct, fr, args())
					}
					e2 := clipper.NewClipperD(-1)
					e2.AddPathsWithScaleFunc(SD, clipper.Subject, false, clipper.ScalePathsDToPaths64)
					var c3, o3 clipper.PathsD
					if !e2.ExecuteWithScaleFunc(ct, fr, &c3, &o3, clipper.ScalePath64ToPathD) {
						c.Fail("execute-false", "ClipperD.ExecuteWithScaleFunc", "ClipperD.ExecuteWithScaleFunc(ct=%d, fr=%d) returned false; %s", ct, fr, args())
					}
					var cl2 clipper.PathsD
					if !e.Execute(ct, fr, &cl2) {
						c.Fail("execute-false", "ClipperD.Execute", "ClipperD.Execute(ct=%d, fr=%d) returned false; %s", ct, fr, args())
					}
				})
			}
		}
	}
	// the five convenience wrappers, 64 and D
	for _, fr := range c03FillRule {
		sub := func() string { return fmt.Sprintf("fr=%d %s", fr, args()) }
		guard(c, "wrappers64", false, sub, func() {
			clipper.UnionPaths64(S, fr)
			clipper.UnionWithClipPaths64(S, C, fr)
			clipper.IntersectWithClipPaths64(S, C, fr)
			clipper.DifferenceWithClipPaths64(S, C, fr)
			clipper.XorWithClipPaths64(S, C, fr)
		})
		guard(c, "wrappersD", false, sub, func() {
			clipper.UnionPathsD(SD, fr)
			clipper.UnionWithClipPathsD(SD, CD, fr)
			clipper.IntersectWithClipPathsD(SD, CD, fr, 0)
			clipper.DifferenceWithClipPathsD(SD, CD, fr, -2)
			clipper.XorWithClipPathsD(SD, CD, fr, 4)
		})
	}
	if interesting {
		c.Nontriv()
		c.Count("boolean_inputs_with_nonempty_result", 1)
	}
}

// c03SpaceScope: the same entry points on the inputs of a closed boolean family (bitmaps of touching cells etc.).
func c03SpaceScope(sp *BoolSpace) *drv.Scope {
	var g genBuf
	return &drv.Scope{Name: "boolean-family/" + sp.Name, Level: sp.Level, Size: sp.Size, Show: showBool(sp),
		Run: func(c *drv.Ctx, idx uint64) {
			S, C := sp.Gen(idx, &g)
			var sb Path
			if len(S) > 0 {
				sb = S[0]
			}
			c03BooleanBody(c, S, C, sb)
		}}
}

// c03Boolean: all boolean entry points, 64-bit and D, flat, open/closed and tree.
func c03BooleanScope(name string, sa, ca *pathAlpha, twoPaths bool, level int) *drv.Scope {
	nS, nC := sa.size(), ca.size()+2 // +2: nil clip, empty non-nil clip
	var sb, sb2, cb Path
	size := nS * nC
	if twoPaths {
		size = nS * nS * 4
	}
	return &drv.Scope{Name: name, Level: level, Size: size,
		Show: func(idx uint64) any {
			return fmt.Sprintf("subject #%d, clip #%d of %s; all clip types 0..5 x fill rules 0..4 x {BooleanOpPaths64, wrappers, Clipper64.Execute/ExecuteOC(open)/ExecutePolyTree64, ClipperD(2), BooleanOpPathsD, BooleanOpPolyTree64/D}", idx%nS, idx/nS, name)
		},
		Run: func(c *drv.Ctx, idx uint64) {
			var S, C Paths
			if twoPaths {
				sb = sa.get(idx%nS, sb)
				sb2 = sa.get((idx/nS)%nS, sb2)
				S = Paths{sb, sb2}
				switch idx / (nS * nS) {
				case 0:
					C = nil
				case 1:
					C = Paths{{}}
				case 2:
					C = Paths{enum.ClonePath(sb2)}
				default:
					C = Paths{{sa.e.F(0, 0), sa.e.F(2, 0), sa.e.F(2, 2), sa.e.F(0, 2)}, {sa.e.F(1, 1), sa.e.F(1, 1)}}
				}
			} else {
				sb = sa.get(idx%nS, sb)
				S = Paths{sb}
				ci := idx / nS
				switch {
				case ci == 0:
					C = nil
				case ci == 1:
					C = Paths{}
				default:
					cb = ca.get(ci-2, cb)
					C = Paths{cb}
				}
			}
			c03BooleanBody(c, S, C, sb)
		}}
}

func c03OffsetScope(name string, pa *pathAlpha, twoPaths bool, level int) *drv.Scope {
	nP := pa.size()
	var pb, pb2 Path
	size := nP
	if twoPaths {
		size = nP * nP
	}
	return &drv.Scope{Name: name, Level: level, Size: size,
		Show: func(idx uint64) any {
			return map[string]any{"paths": pathsLit(Paths{pa.get(idx%nP, nil)}), "configs": "13 deltas x join types 0..4 x end types 0..5 x miter {0,.5,2} x arc {0,.25}; InflatePaths64, InflatePathsD, ClipperOffset object"}
		},
		Run: func(c *drv.Ctx, idx uint64) {
			pb = pa.get(idx%nP, pb)
			P := Paths{pb}
			if twoPaths {
				pb2 = pa.get(idx/nP, pb2)
				P = Paths{pb, pb2}
			}
			PD := clipper.Paths64ToPathsD(P)
			nt := false
			for _, d := range c03Deltas {
				for jt := clipper.JoinType(0); jt <= 4; jt++ {
					for et := clipper.EndType(0); et <= 5; et++ {
						for mi, ml := range c03Miter {
							for ai, at := range c03Arc {
								if math.Abs(d) >= 1e9 && (ai != 0 || mi != 2) {
									continue // absurd step counts are outside the stated alphabet
								}
								if (mi != 2 || ai != 0) && (int(jt)+int(et))%2 == 1 {
									continue
								}
								sub := func() string {
									return fmt.Sprintf("paths=%v delta=%v jt=%d et=%d miter=%v arc=%v", P, d, jt, et, ml, at)
								}
								guard(c, "InflatePaths64", false, sub, func() {
									r := clipper.InflatePaths64(P, d, jt, et, clipper.WithMitterLimit(ml), clipper.WithArcTolerance(at))
									c.Output(enum.HashPaths(r))
									if len(r) > 0 {
										nt = true
									}
								})
							}
						}
					}
				}
				// D wrapper and the object API with two groups and a reused solution
				guard(c, "InflatePathsD", false, func() string { return fmt.Sprintf("paths=%v delta=%v", P, d) }, func() {
					clipper.InflatePathsD(PD, d/100, clipper.Round, clipper.Polygon, clipper.WithPrecision(2))
					clipper.InflatePathsD(PD, d/100, clipper.Miter, clipper.Butt, clipper.WithPrecision(-1), clipper.WithArcTolerance(0.1))
				})
				guard(c, "ClipperOffset", false, func() string { return fmt.Sprintf("paths=%v delta=%v", P, d) }, func() {
					co := clipper.NewClipperOffset(0, 0, d > 0, d < 0)
					co.AddPaths(P, clipper.Round, clipper.Polygon)
					co.AddPaths(P, clipper.Square, clipper.Joined)
					co.AddPaths(Paths{}, clipper.Bevel, clipper.Butt)
					_ = co.CalcSolutionCapacity()
					_ = co.CheckPathsReversed()
					var sol Paths
					if math.Abs(d) < 1e9 {
						co.Execute64(d, &sol)
						co.Execute64(-d, &sol)
						var cb clipper.DeltaCallbackFunc = func(path *clipper.Path64, n *clipper.PathD, cur, prev uint8) float64 {
							return d * float64(cur+1) / 2
						}
						co.SetDeltaCallback(&cb)
						co.Execute64(1, &sol)
					}
					g := clipper.NewGroup(P, clipper.Miter)
					g.GetLowestPathInfo()
				})
			}
			if nt {
				c.Nontriv()
				c.Count("offset_inputs_with_nonempty_result", 1)
			}
		}}
}

func c03RectScope(pa *pathAlpha, level int) *drv.Scope {
	nP := pa.size()
	var pb Path
	return &drv.Scope{Name: "rectclip/" + fmt.Sprintf("rects{0..3}^4 x P(%d,0..%d)/%s", pa.k, pa.maxN, pa.e.Name), Level: level, Size: nP * 256,
		Show: func(idx uint64) any {
			r := idx / nP
			return map[string]any{"path": pathLit(pa.get(idx%nP, nil)), "rect(l,t,r,b) lattice": []uint64{r % 4, (r / 4) % 4, (r / 16) % 4, r / 64}}
		},
		Run: func(c *drv.Ctx, idx uint64) {
			pb = pa.get(idx%nP, pb)
			r := idx / nP
			l, t, rr, b := pa.e.F(int64(r%4), 0).X, pa.e.F(0, int64((r/4)%4)).Y, pa.e.F(int64((r/16)%4), 0).X, pa.e.F(0, int64(r/64)).Y
			rect := clipper.NewRect64(l, t, rr, b)
			rectD := clipper.NewRectD(float64(l), float64(t), float64(rr), float64(b))
			P := Paths{pb, pb}
			PD := clipper.Paths64ToPathsD(P)
			sub := func() string { return fmt.Sprintf("rect=(%d,%d,%d,%d) path=%v", l, t, rr, b, pb) }
			nt := false
			guard(c, "RectClipPaths64", false, sub, func() {
				if len(clipper.RectClipPaths64(rect, P)) > 0 {
					nt = true
				}
			})
			guard(c, "RectClipPath64", false, sub, func() { clipper.RectClipPath64(rect, pb) })
			guard(c, "RectClipLinesPaths64", false, sub, func() { clipper.RectClipLinesPaths64(rect, P) })
			guard(c, "RectClipLinesPath64", false, sub, func() { clipper.RectClipLinesPath64(rect, pb) })
			guard(c, "RectClipPathsD", false, sub, func() { clipper.RectClipPathsD(rectD, PD, 1) })
			guard(c, "RectClipPathD", false, sub, func() { clipper.RectClipPathD(rectD, PD[0]) })
			guard(c, "RectClipLinesPathsD", false, sub, func() { clipper.RectClipLinesPathsD(rectD, PD, 0) })
			guard(c, "RectClipLinesPathD", false, sub, func() { clipper.RectClipLinesPathD(rectD, PD[0]) })
			guard(c, "RectClip64 object", false, sub, func() {
				rc := clipper.NewRectClip64(rect)
				rc.Execute(P)
				rc.Execute(Paths{pb})
				rl := clipper.NewRectClipLines64(rect)
				rl.Execute(P)
			})
			guard(c, "Rect64 methods", false, sub, func() {
				_ = rect.IsEmpty()
				_ = rect.IsInvalid()
				_ = rect.MidPoint()
				_ = rect.Contains(clipper.GetBounds64(pb))
				_ = rect.Intersects(clipper.GetBounds64(pb))
				_ = rect.AsPath()
				_ = rectD.IsEmpty()
				_ = rectD.MidPoint()
				_ = rectD.AsPath()
				_ = clipper.ScaleRect64(rect, 2.5)
				_ = clipper.ScaleRectD(rectD, 100)
			})
			if nt {
				c.Nontriv()
				c.Count("rectclip_inputs_with_nonempty_result", 1)
			}
		}}
}

func c03MinkowskiScope(pa, qa *pathAlpha, level int) *drv.Scope {
	nP, nQ := pa.size(), qa.size()
	var pb, qb Path
	return &drv.Scope{Name: fmt.Sprintf("minkowski/P(3,0..%d) x P(3,0..%d)/%s", pa.maxN, qa.maxN, pa.e.Name), Level: level, Size: nP * nQ,
		Show: func(idx uint64) any {
			return map[string]any{"pattern": pathLit(pa.get(idx%nP, nil)), "path": pathLit(qa.get(idx/nP, nil))}
		},
		Run: func(c *drv.Ctx, idx uint64) {
			pb = pa.get(idx%nP, pb)
			qb = qa.get(idx/nP, qb)
			sub := func() string { return fmt.Sprintf("pattern=%v path=%v", pb, qb) }
			nt := false
			for _, closed := range []bool{true, false} {
				guard(c, "MinkowskiSum64", false, func() string { return fmt.Sprintf("%s isClosed=%v", sub(), closed) }, func() {
					if len(clipper.MinkowskiSum64(pb, qb, closed)) > 0 {
						nt = true
					}
				})
				guard(c, "MinkowskiDiff64", false, func() string { return fmt.Sprintf("%s isClosed=%v", sub(), closed) }, func() { clipper.MinkowskiDiff64(pb, qb, closed) })
				guard(c, "MinkowskiSumD/DiffD", false, func() string { return fmt.Sprintf("%s isClosed=%v", sub(), closed) }, func() {
					clipper.MinkowskiSumD(clipper.Path64ToPathD(pb), clipper.Path64ToPathD(qb), closed)
					clipper.MinkowskiDiffD(clipper.Path64ToPathD(pb), clipper.Path64ToPathD(qb), closed, 1)
				})
			}
			if nt {
				c.Nontriv()
				c.Count("minkowski_inputs_with_nonempty_result", 1)
			}
		}}
}

func c03UnaryScope(pa *pathAlpha, level int) *drv.Scope {
	nP := pa.size()
	var pb Path
	return &drv.Scope{Name: fmt.Sprintf("unary/P(%d,0..%d)/%s", pa.k, pa.maxN, pa.e.Name), Level: level, Size: nP,
		Show: func(idx uint64) any { return pathLit(pa.get(idx, nil)) },
		Run: func(c *drv.Ctx, idx uint64) {
			pb = pa.get(idx, pb)
			pd := clipper.Path64ToPathD(pb)
			sub := func() string { return fmt.Sprintf("path=%v", pb) }
			for _, b := range []bool{false, true} {
				guard(c, "TrimCollinear64", false, sub, func() { clipper.TrimCollinear64(pb, b) })
				guard(c, "TrimCollinearD", false, sub, func() { clipper.TrimCollinearD(pd, 2, b) })
				guard(c, "StripDuplicates", false, sub, func() { clipper.StripDuplicates(pb, b) })
				for _, eps := range c03Eps {
					guard(c, "SimplifyPath64", false, func() string { return fmt.Sprintf("%s eps=%v closed=%v", sub(), eps, b) }, func() {
						clipper.SimplifyPath64(pb, eps, b)
						clipper.SimplifyPaths64(Paths{pb, pb}, eps, b)
					})
					guard(c, "SimplifyPathD", false, func() string { return fmt.Sprintf("%s eps=%v closed=%v", sub(), eps, b) }, func() {
						clipper.SimplifyPathD(pd, eps, b)
						clipper.SimplifyPathsD(clipper.PathsD{pd, pd}, eps, b)
					})
				}
			}
			guard(c, "measures", false, sub, func() {
				clipper.Area64(pb)
				clipper.AreaD(pd)
				clipper.AreaPaths64(Paths{pb, pb})
				clipper.AreaPathsD(clipper.PathsD{pd})
				clipper.IsPositive64(pb)
				clipper.IsPositiveD(pd)
				clipper.GetBounds64(pb)
				clipper.ReversePath(pb)
				clipper.OffsetPath(pb, 1, -1)
				clipper.TranslatePath64(pb, 3, 4)
				clipper.TranslatePaths64(Paths{pb}, 3, 4)
				clipper.TranslatePathD(pd, 0.5, 0.5)
				clipper.TranslatePathsD(clipper.PathsD{pd}, 0.5, 0.5)
				clipper.ScalePath64(pb, 1)
				clipper.ScalePath64(pb, 2.5)
				clipper.ScalePathD(pd, 1)
				clipper.ScalePathD(pd, 0.1)
				clipper.ScalePathDToPath64(pd, 100)
				clipper.ScalePath64ToPathD(pb, 0.01)
				clipper.ScalePathsDToPaths64(clipper.PathsD{pd}, 100)
				clipper.ScalePaths64ToPathsD(Paths{pb}, 0.01)
				clipper.PathDToPath64(pd)
				clipper.PathsDToPaths64(clipper.PathsD{pd})
				clipper.Paths64ToPathsD(Paths{pb})
			})
			for y := int64(-1); y <= int64(pa.k); y++ {
				for x := int64(-1); x <= int64(pa.k); x++ {
					pt := pa.e.F(x, y)
					guard(c, "PointInPolygon", false, func() string { return fmt.Sprintf("pt=%v %s", pt, sub()) }, func() {
						clipper.PointInPolygon(pt, pb)
						clipper.Path2ContainsPath1(Path{pt, pa.e.F(y, x), pa.e.F(1, 1)}, pb)
					})
				}
			}
			if len(pb) >= 2 {
				guard(c, "point helpers", false, sub, func() {
					clipper.CrossProduct(pb[0], pb[1], pb[len(pb)-1])
					clipper.PerpendicDistFromLineSqr64(pb[0], pb[1], pb[len(pb)-1])
					clipper.PerpendicDistFromLineSqrD(pd[0], pd[1], pd[len(pd)-1])
					clipper.PointsNearEqual(pd[0], pd[1], 0.5)
					p := pb[0]
					p.Add(pb[1])
					p.Sub(pb[1])
					_ = p.Equals(pb[0])
					_ = p.NEquals(pb[1])
					_ = p.ToPointD()
					_ = p.ToPointDScale(0.5)
					q := pd[0]
					_ = q.ToPoint64()
					_ = q.ToPoint64Scale(3)
					q.Scale(2)
					q.Negate()
					_ = q.Equals(pd[1])
					_ = clipper.NewFloatPoint64(q.X, q.Y)
				})
			}
			c.Nontriv()
		}}
}

// c03MiscScope: ellipse parameters, MakePath, precision range on every D entry point.
func c03MiscScope() *drv.Scope {
	radii := []float64{0, -1, 0.3, 1, 2.5, 100, 1e6}
	steps := []int{-1, 0, 1, 2, 3, 4, 17}
	precisions := []int{-100, -9, -8, -7, -3, -1, 0, 1, 2, 5, 8, 9, 100}
	nR, nS := uint64(len(radii)), uint64(len(steps))
	size := nR*nR*nS + uint64(len(precisions))
	tri := clipper.PathsD{{{X: 0, Y: 0}, {X: 10.5, Y: 0}, {X: 3.25, Y: 7.75}}}
	sq := clipper.PathsD{{{X: 2, Y: 1}, {X: 8, Y: 1}, {X: 8, Y: 6}, {X: 2, Y: 6}}}
	return &drv.Scope{Name: "misc/ellipse+precision", Level: 1, Size: size,
		Show: func(idx uint64) any {
			if idx < nR*nR*nS {
				return map[string]any{"radiusX": radii[idx%nR], "radiusY": radii[(idx/nR)%nR], "steps": steps[idx/(nR*nR)]}
			}
			return map[string]any{"precision": precisions[idx-nR*nR*nS], "entry points": "all D entry points"}
		},
		Run: func(c *drv.Ctx, idx uint64) {
			if idx < nR*nR*nS {
				rx, ry, st := radii[idx%nR], radii[(idx/nR)%nR], steps[idx/(nR*nR)]
				sub := func() string { return fmt.Sprintf("rx=%v ry=%v steps=%d", rx, ry, st) }
				guard(c, "Ellipse64", false, sub, func() { clipper.Ellipse64(Pt{X: 5, Y: -5}, rx, ry, st) })
				guard(c, "EllipseD", false, sub, func() { clipper.EllipseD(clipper.PointD{X: 0.5, Y: 2}, rx, ry, st) })
				guard(c, "MakePath", false, sub, func() {
					clipper.MakePath64()
					clipper.MakePath64(1)
					clipper.MakePath64(1, 2, 3)
					clipper.MakePathD(1.5, 2.5)
					clipper.MakePathD()
				})
				c.Nontriv()
				return
			}
			p := precisions[idx-nR*nR*nS]
			out := p < -8 || p > 8
			sub := func() string { return fmt.Sprintf("precision=%d", p) }
			rect := clipper.NewRectD(1, 1, 6, 5)
			guard(c, "BooleanOpPathsD", out, sub, func() { clipper.BooleanOpPathsD(clipper.Intersection, tri, sq, clipper.NonZero, p) })
			guard(c, "UnionPathsD", out, sub, func() { clipper.UnionPathsD(tri, clipper.NonZero, p) })
			guard(c, "BooleanOpPolyTreeD", out, sub, func() { clipper.BooleanOpPolyTreeD(clipper.Union, tri, sq, clipper.EvenOdd, p) })
			guard(c, "NewClipperD", out, sub, func() { clipper.NewClipperD(p) })
			guard(c, "InflatePathsD", out, sub, func() { clipper.InflatePathsD(tri, 1.5, clipper.Round, clipper.Polygon, clipper.WithPrecision(p)) })
			guard(c, "RectClipPathsD", out, sub, func() { clipper.RectClipPathsD(rect, tri, p) })
			guard(c, "RectClipLinesPathsD", out, sub, func() { clipper.RectClipLinesPathsD(rect, tri, p) })
			guard(c, "TrimCollinearD", out, sub, func() { clipper.TrimCollinearD(tri[0], p, false) })
			guard(c, "MinkowskiSumD", out, sub, func() { clipper.MinkowskiSumD(sq[0], tri[0], true, p) })
			guard(c, "MinkowskiDiffD", out, sub, func() { clipper.MinkowskiDiffD(sq[0], tri[0], false, p) })
			c.Nontriv()
		}}
}

// c03ApiScope: the exported constructors and node methods that no other scope reaches.
func c03ApiScope() *drv.Scope {
	return &drv.Scope{Name: "misc/exported constructors and PolyPathBase methods", Level: 1, Size: 4,
		Show: func(idx uint64) any { return fmt.Sprintf("variant %d of the constructor / tree-node API calls", idx) },
		Run: func(c *drv.Ctx, idx uint64) {
			sub := func() string { return fmt.Sprintf("variant=%d", idx) }
			guard(c, "constructors", false, sub, func() {
				_ = clipper.IsOdd(int(idx) - 2)
				v := clipper.NewVertex(Pt{X: int64(idx), Y: 1}, 0, nil)
				_ = clipper.NewVertex(Pt{X: 2, Y: 3}, 0, v)
				_ = clipper.NewLocalMinima(v, clipper.Subject, idx%2 == 0)
				_ = clipper.NewIntersectNode(Pt{X: 1, Y: 1}, nil, nil)
				_ = clipper.NewHorzSegment(nil)
				_ = clipper.NewHorzJoin(nil, nil)
				_ = clipper.NewOutPt2(Pt{X: 5, Y: 5})
				clipper.SwapFrontBackSides(&clipper.OutRec{})
				var vpl clipper.VertexPoolList
				vpl.EnsureCapacity(int(idx) * 3)
				vpl.EnsureCapacity(0)
				r := clipper.NewRect64Invalid(idx%2 == 0)
				rd := clipper.NewRectDInvalid(idx%2 == 1)
				_, _ = r.IsEmpty(), rd.IsEmpty()
			})
			guard(c, "PolyPathBase", false, sub, func() {
				root := clipper.NewPolyPathBase(nil)
				a := root.AddChild(Path{{X: 0, Y: 0}, {X: 10, Y: 0}, {X: 10, Y: 10}})
				b := a.AddChild(Path{{X: 2, Y: 2}, {X: 2, Y: 4}, {X: 4, Y: 2}})
				b.AddChild(nil)
				root.SetScale(float64(idx))
				a.SetScale(0.01)
				_ = root.ToString()
				_ = a.ToStringInternal(0, int(idx))
				walkTree(root, 0)
				_, _, _ = root.Count(), b.Level(), b.IsHole()
				a.Clear()
				root.Clear()
				_ = root.ToString()
				walkTree(root, 0)
			})
			c.Nontriv()
		}}
}

func init() {
	drv.Register(&drv.Check{
		ID:    "C03",
		Title: "Every entry point is total: no panic, no hang, no failure flag",
		Rule: "explicit table of the exported entry points (boolean 64/D flat, open/closed, tree, wrappers, engine objects; inflate 64/D and ClipperOffset object incl. delta callback; rectangle clipping of polygons and lines 64/D and objects; Minkowski 64/D; trim/simplify/strip/area/bounds/point-in-polygon/scale/translate/ellipse/point and rect helpers; PolyTree node API) each bound to a finite argument alphabet: " +
			"every path of P(3,0..n) (0-, 1-, 2-point, repeated, collinear, all-horizontal, zero-area paths are members) under unit and stride-10 embeddings, nil/empty/degenerate clip sets, clip types 0..5 and fill rules 0..4 (NoClip and one out-of-range value each), all rectangles with sides in {0..3} (empty and inverted included), 13 deltas from 0 to +-1e9, join types 0..4, end types 0..5, miter limits, arc tolerances, epsilons, precisions -100..100. " +
			"Oracle: call returns (panic recovered in-process; worker death and a 60 s per-call watchdog turn crashes and hangs into violations); Execute* return true; the only tolerated panic is ErrPrecisionRange from a D entry point given a precision outside [-8,8]. non-trivial = input producing a non-empty result in at least one configuration",
		Assumptions:      []string{"paths of at most 4-5 points, at most 2 paths per set except in the bitmap (up to 20 touching squares) and three-triangle families", "deltas of 1e9 only with the default arc tolerance (step counts for an explicit tiny tolerance are outside the stated alphabet)"},
		RequiredCounters: []string{"boolean_inputs_with_nonempty_result", "offset_inputs_with_nonempty_result", "rectclip_inputs_with_nonempty_result", "minkowski_inputs_with_nonempty_result", "documented_precision_panics"},
		Scopes: func(tier string) []*drv.Scope {
			u3, a3 := newPathAlpha(3, 3, enum.Eunit), newPathAlpha(3, 3, enum.Eax)
			u2, a2 := newPathAlpha(3, 2, enum.Eunit), newPathAlpha(3, 2, enum.Eax)
			out := []*drv.Scope{c03MiscScope(), c03ApiScope()}
			if tier == "quick" {
				out = append(out,
					c03UnaryScope(newPathAlpha(3, 4, enum.Eunit), 1), c03UnaryScope(a3, 1),
					c03BooleanScope("boolean/P(3,0..3) x P(3,0..2)/E_unit", u3, u2, false, 2),
					c03BooleanScope("boolean/P(3,0..3) x P(3,0..2)/E_ax", a3, a2, false, 2),
					c03BooleanScope("boolean2/P(3,0..2)^2 x 4 clips/E_ax", a2, a2, true, 3),
					c03BooleanScope("boolean2/(every 7-th of P(3,0..3))^2 x 4 clips/E_ax", a3.strided(7), a3.strided(7), true, 3),
					c03SpaceScope(spBitmap(3, false, true, 1, 4)), c03SpaceScope(spBitmap(4, true, true, 300007, 4)), c03SpaceScope(spThree(enum.Eax, 37, 4)),
					c03OffsetScope("offset/P(3,0..3)/E_unit", u3, false, 2), c03OffsetScope("offset/P(3,0..3)/E_ax", a3, false, 2),
					c03RectScope(newPathAlpha(4, 3, enum.Eax), 2),
					c03MinkowskiScope(a3, a2, 2), c03MinkowskiScope(u2, u3, 2))
				return out
			}
			u4, a4 := newPathAlpha(3, 4, enum.Eunit), newPathAlpha(3, 4, enum.Eax)
			out = append(out,
				c03UnaryScope(newPathAlpha(3, 5, enum.Eunit), 1), c03UnaryScope(newPathAlpha(3, 5, enum.Eax), 1), c03UnaryScope(newPathAlpha(4, 4, enum.Eunit), 1),
				c03BooleanScope("boolean/P(3,0..4) x P(3,0..3)/E_unit", u4, u3, false, 2),
				c03BooleanScope("boolean/P(3,0..4) x P(3,0..3)/E_ax", a4, a3, false, 2),
				c03BooleanScope("boolean2/P(3,0..3)^2 x 4 clips/E_ax", a3, a3, true, 3),
				c03BooleanScope("boolean2/P(3,0..3)^2 x 4 clips/E_unit", u3, u3, true, 3),
				c03SpaceScope(spBitmap(3, false, true, 1, 4)), c03SpaceScope(spBitmap(4, true, true, 30011, 4)), c03SpaceScope(spThree(enum.Eax, 13, 4)), c03SpaceScope(spThree(enum.Ean, 13, 4)),
				c03OffsetScope("offset/P(3,0..4)/E_unit", u4, false, 2), c03OffsetScope("offset/P(3,0..4)/E_ax", a4, false, 2),
				c03OffsetScope("offset2/P(3,0..2)^2/E_ax", a2, true, 3),
				c03RectScope(newPathAlpha(4, 3, enum.Eax), 2), c03RectScope(newPathAlpha(4, 4, enum.Eax), 3), c03RectScope(newPathAlpha(4, 3, enum.Eunit), 2),
				c03MinkowskiScope(a3, a3, 2), c03MinkowskiScope(u3, u3, 2), c03MinkowskiScope(a4, a2, 3))
			return out
		},
	})
}
