package checks

import (
	"fmt"
	"math"
	"math/big"

	clipper "github.com/bolom009/go-clipper2"

	"verif/internal/drv"
	"verif/internal/enum"
	"verif/internal/oracle"
)

// epsilons as exact halves: eps = e2/2
var c16Eps2 = []int64{0, 1, 2, 3, 4, 10, 24}

func isSubsequence(sub, full Path) bool {
	j := 0
	for _, q := range full {
		if j < len(sub) && sub[j] == q {
			j++
		}
	}
	return j == len(sub)
}

// clearlyWithin reports whether b is strictly (with a 1e-9 relative guard) within eps=e2/2 of the
// line through a and c: 4*cross^2 < e2^2 * |c-a|^2 * (1 - 1e-9). Undefined (false) when a == c.
func clearlyWithin(a, b, c Pt, e2 int64) bool {
	if a == c {
		return false
	}
	var cr, l2, lhs, rhs, t big.Int
	cr.Mul(big.NewInt(b.X-a.X), big.NewInt(c.Y-a.Y))
	t.Mul(big.NewInt(b.Y-a.Y), big.NewInt(c.X-a.X))
	cr.Sub(&cr, &t)
	l2.Mul(big.NewInt(c.X-a.X), big.NewInt(c.X-a.X))
	t.Mul(big.NewInt(c.Y-a.Y), big.NewInt(c.Y-a.Y))
	l2.Add(&l2, &t)
	lhs.Mul(&cr, &cr)
	lhs.Mul(&lhs, big.NewInt(4))
	rhs.Mul(big.NewInt(e2), big.NewInt(e2))
	rhs.Mul(&rhs, &l2)
	if e2 == 0 {
		return false // with epsilon 0 "within" means exactly collinear; the strict test below handles only eps > 0
	}
	// lhs < rhs*(1-1e-9)  <=>  lhs*1e9 < rhs*(1e9-1)
	lhs.Mul(&lhs, big.NewInt(1_000_000_000))
	rhs.Mul(&rhs, big.NewInt(999_999_999))
	return lhs.Cmp(&rhs) < 0
}

func c16CheckResult(c *drv.Ctx, name string, in, got Path, e2 int64, closed bool) {
	sub := func() string { return fmt.Sprintf("%s eps=%v closed=%v", name, float64(e2)/2, closed) }
	if len(in) < 4 {
		if !enum.EqualPath(in, got) {
			c.Fail("short-path", sub(), "%s: path with fewer than 4 points %v must be returned as it is, got %v", sub(), in, got)
		}
		return
	}
	if !isSubsequence(got, in) {
		c.Fail("not-subsequence", sub(), "%s: result %v is not a sub-sequence of the input %v", sub(), got, in)
		return
	}
	if !closed && (len(got) < 2 || got[0] != in[0] || got[len(got)-1] != in[len(in)-1]) {
		c.Fail("open-ends", sub(), "%s: end points of the open path %v not kept: %v", sub(), in, got)
		return
	}
	n := len(got)
	if n > 2 {
		lo, hi := 0, n
		if !closed {
			lo, hi = 1, n-1
		}
		for i := lo; i < hi; i++ {
			a, b, cc := got[(i-1+n)%n], got[i], got[(i+1)%n]
			within := clearlyWithin(a, b, cc, e2)
			if e2 == 0 {
				within = a != cc && oracle.CrossSign(a, b, cc) == 0
			}
			if within {
				c.Fail("retained-near-collinear", sub(), "%s: retained vertex %v is within epsilon of the line through its retained neighbours %v,%v; input %v result %v", sub(), b, a, cc, in, got)
				return
			}
		}
	}
	if e2 == 0 && closed && oracle.Area2(in).Cmp(oracle.Area2(got)) != 0 {
		c.Fail("area-eps0", sub(), "%s: epsilon 0 changed the closed path's area: input %v (2A=%v) result %v (2A=%v)", sub(), in, oracle.Area2(in), got, oracle.Area2(got))
	}
}

// c16BoundaryScope: an open path a, m, b, c (c far off the chord a-b) whose vertex m lies at an integer height d above (or beside) the
// chord a-b, with epsilon a fraction of a unit below or above d, at heights from 16 to 2^28: the decision
// "d <= epsilon" is exact in float64 at every one of these magnitudes (d^2 < 2^57 is an integer with at most 30
// significant bits ... in short: representable), but not in any narrower arithmetic. The middle vertex must be
// kept exactly when d > epsilon; the margin |d - epsilon| >= 0.1 is far outside the 1e-9 relative guard.
func c16BoundaryScope() *drv.Scope {
	type cs struct {
		d   int64
		eps float64
		ver bool
	}
	var cases []cs
	for _, k := range []uint{4, 10, 20, 24, 26, 27, 28} {
		E := int64(1) << k
		for _, off := range []float64{3.9, 0.45, -0.45, 7.1, -2.3} {
			eps := float64(E) + off
			for _, d := range []int64{int64(eps), int64(eps) + 1} {
				cases = append(cases, cs{d, eps, false}, cs{d, eps, true})
			}
		}
	}
	return &drv.Scope{Name: "boundary/middle vertex a fraction of a unit inside or outside epsilon, heights 16..2^28", Level: 1, Size: uint64(len(cases)),
		Show: func(idx uint64) any {
			return map[string]any{"height": cases[idx].d, "epsilon": cases[idx].eps, "vertical chord": cases[idx].ver}
		},
		Run: func(c *drv.Ctx, idx uint64) {
			cse := cases[idx]
			L := 3*cse.d + 7
			// a fourth vertex far off the chord: paths of fewer than 4 points are returned as they are
			in := Path{{X: 0, Y: 0}, {X: L, Y: cse.d}, {X: 2 * L, Y: 0}, {X: 2 * L, Y: -9 * L}}
			if cse.ver {
				in = Path{{X: 5, Y: -L}, {X: 5 - cse.d, Y: 0}, {X: 5, Y: L}, {X: 5 + 9*L, Y: L}}
			}
			wantKept := float64(cse.d) > cse.eps
			for _, name := range []string{"SimplifyPath64", "SimplifyPathD"} {
				var kept bool
				var n int
				if name == "SimplifyPath64" {
					got := clipper.SimplifyPath64(enum.ClonePath(in), cse.eps, false)
					n, kept = len(got), len(got) == 4
				} else {
					got := clipper.SimplifyPathD(clipper.Path64ToPathD(in), cse.eps, false)
					n, kept = len(got), len(got) == 4
				}
				c.Exec(1)
				if n < 3 || kept != wantKept {
					c.Fail("boundary", name, "%s(%v, epsilon=%v, open) returned %d vertices: the middle vertex is %d from the chord, so it must be kept=%v", name, in, cse.eps, n, cse.d, wantKept)
				}
			}
			c.Nontriv()
		}}
}

func c16Scope(e enum.Embed, k, n int, level int) *drv.Scope {
	var buf Path
	return &drv.Scope{Name: fmt.Sprintf("simplify/P(%d,%d)/%s", k, n, e.Name), Level: level, Size: enum.PathCount(k, n),
		Show: func(idx uint64) any {
			return map[string]any{"path": pathLit(enum.UnrankPath(idx, k, n, e, nil)), "epsilons": "0, .5, 1, 1.5, 2, 5, 12", "variants": "closed/open, 64/D, Paths, 2 translations, 4 power-of-two scalings"}
		},
		Run: func(c *drv.Ctx, idx uint64) {
			buf = enum.UnrankPath(idx, k, n, e, buf)
			in := enum.ClonePath(buf)
			removedSome := false
			for _, e2 := range c16Eps2 {
				eps := float64(e2) / 2
				for _, closed := range []bool{true, false} {
					got := clipper.SimplifyPath64(enum.ClonePath(in), eps, closed)
					c.Exec(1)
					c.Output(enum.HashPaths(Paths{got}) + uint64(e2))
					c16CheckResult(c, "SimplifyPath64", in, got, e2, closed)
					if len(got) < len(in) && len(got) > 2 {
						removedSome = true
					}
					sub := fmt.Sprintf("eps=%v closed=%v", eps, closed)
					// D variant on the same numbers and on an exactly representable down-scaling
					gd := clipper.SimplifyPathD(clipper.Path64ToPathD(in), eps, closed)
					c.Exec(1)
					if !enum.EqualPath(clipper.PathDToPath64(gd), got) {
						c.Fail("D-differs", sub, "SimplifyPathD(%v, %s)=%v differs from SimplifyPath64=%v", in, sub, gd, got)
					}
					// float64 arithmetic is exactly invariant under scaling by a power of two
					for _, sh := range []int{-2, -10, -28, 12} {
						f := math.Ldexp(1, sh)
						scaled := make(clipper.PathD, len(in))
						for i, q := range in {
							scaled[i] = clipper.PointD{X: float64(q.X) * f, Y: float64(q.Y) * f}
						}
						gq := clipper.SimplifyPathD(scaled, eps*f, closed)
						c.Exec(1)
						back := make(Path, len(gq))
						for i, q := range gq {
							back[i] = Pt{X: int64(math.Round(q.X / f)), Y: int64(math.Round(q.Y / f))}
						}
						if !enum.EqualPath(back, got) {
							c.Fail("D-scale", sub, "SimplifyPathD(path*2^%d, eps*2^%d, %s) keeps %v (scaled back), SimplifyPath64 keeps %v (input %v)", sh, sh, sub, back, got, in)
						}
					}
					// Paths variant, path by path
					ps := clipper.SimplifyPaths64(Paths{in, clipper.ReversePath(in)}, eps, closed)
					c.Exec(1)
					if len(ps) != 2 || !enum.EqualPath(ps[0], got) {
						c.Fail("paths-variant", sub, "SimplifyPaths64 first result %v differs from SimplifyPath64 %v (input %v, %s)", ps, got, in, sub)
					} else {
						c16CheckResult(c, "SimplifyPaths64[1]", clipper.ReversePath(in), ps[1], e2, closed)
					}
					// translation invariance
					for _, tr := range [][2]int64{{1 << 20, -(1 << 20)}, {(1 << 29) - 200, (1 << 29) - 200}} {
						moved := clipper.TranslatePath64(in, tr[0], tr[1])
						gm := clipper.SimplifyPath64(moved, eps, closed)
						c.Exec(1)
						if !enum.EqualPath(clipper.TranslatePath64(gm, -tr[0], -tr[1]), got) {
							c.Fail("translation", sub, "SimplifyPath64 of the path translated by (%d,%d) keeps %v (translated back), the original keeps %v; input %v %s", tr[0], tr[1], clipper.TranslatePath64(gm, -tr[0], -tr[1]), got, in, sub)
						}
					}
					// scale invariance (path and epsilon by the same power of two)
					for _, j := range []uint{4, 12, 20, 24} {
						if e.Big {
							continue
						}
						f := int64(1) << j
						sc := make(Path, len(in))
						okRange := true
						for i, q := range in {
							sc[i] = Pt{X: q.X * f, Y: q.Y * f}
							if sc[i].X > 1<<29 || sc[i].Y > 1<<29 {
								okRange = false
							}
						}
						if !okRange {
							continue
						}
						gs := clipper.SimplifyPath64(sc, eps*float64(f), closed)
						c.Exec(1)
						back := make(Path, len(gs))
						for i, q := range gs {
							back[i] = Pt{X: q.X / f, Y: q.Y / f}
						}
						if !enum.EqualPath(back, got) {
							c.Fail("scaling", sub, "SimplifyPath64 of path*2^%d with eps*2^%d keeps %v (scaled back), the original keeps %v; input %v %s", j, j, back, got, in, sub)
						}
					}
				}
			}
			if removedSome {
				c.Nontriv()
				c.Count("paths_partially_simplified", 1)
			}
		}}
}

// c16MultiScope: (a) the Paths variants with several paths of different lengths in one call (a long path first, then
// shorter ones, and the other way round): every result must be exactly what the single-path function returns for
// that path, for 64 and D; (b) open paths under epsilons far beyond every distance in the path (3.1e9 ... +Inf): the
// end points must survive and the result must stay a sub-sequence, for 64 and D.
func c16MultiScope(e enum.Embed, n int, stride uint64, level int) *drv.Scope {
	var buf Path
	huge := []float64{3.1e9, 1e10, 1e15, 9.3e18, 1e19, 1e200, math.MaxFloat64, math.Inf(1)}
	toD := func(ps Paths) clipper.PathsD {
		out := make(clipper.PathsD, len(ps))
		for i, p := range ps {
			out[i] = clipper.Path64ToPathD(p)
		}
		return out
	}
	size := (enum.PathCount(3, n) + stride - 1) / stride
	return &drv.Scope{Name: fmt.Sprintf("simplify/several paths per call + huge epsilons/every %d-th of P(3,%d)/%s", stride, n, e.Name), Level: level, Size: size,
		Show: func(idx uint64) any {
			return map[string]any{"path": pathLit(enum.UnrankPath(idx*stride, 3, n, e, nil)), "companions": "its first 4 vertices, its reversal without the last vertex, itself", "epsilons": "0, .5, 1, 2; open paths also 3.1e9 ... +Inf"}
		},
		Run: func(c *drv.Ctx, idx uint64) {
			buf = enum.UnrankPath(idx*stride, 3, n, e, buf)
			in := enum.ClonePath(buf)
			rev := clipper.ReversePath(enum.ClonePath(in))
			short, mid := enum.ClonePath(in[:4]), enum.ClonePath(rev[:n-1])
			sets := []Paths{{in, short, mid, in}, {short, in, mid}, {mid, short, in, short}}
			differs := false
			for _, e2 := range []int64{0, 1, 2, 4} {
				eps := float64(e2) / 2
				for _, closed := range []bool{true, false} {
					for si, set := range sets {
						g64 := clipper.SimplifyPaths64(set, eps, closed)
						gd := clipper.SimplifyPathsD(toD(set), eps, closed)
						c.Exec(2)
						if len(g64) != len(set) || len(gd) != len(set) {
							c.Fail("paths-count", "SimplifyPaths", "SimplifyPaths64/D(%v, eps=%v, closed=%v) returned %d / %d paths for %d", set, eps, closed, len(g64), len(gd), len(set))
							continue
						}
						for i, p := range set {
							w64 := clipper.SimplifyPath64(enum.ClonePath(p), eps, closed)
							wd := clipper.SimplifyPathD(clipper.Path64ToPathD(p), eps, closed)
							c.Exec(2)
							if len(w64) < len(p) {
								differs = true
							}
							if !enum.EqualPath(g64[i], w64) {
								c.Fail("paths-variant", "SimplifyPaths64", "SimplifyPaths64(%v, eps=%v, closed=%v)[%d] = %v, but SimplifyPath64 of that path alone gives %v (set %d)", set, eps, closed, i, g64[i], w64, si)
							}
							if len(gd[i]) != len(wd) || !enum.EqualPath(clipper.PathDToPath64(gd[i]), clipper.PathDToPath64(wd)) {
								c.Fail("paths-variant", "SimplifyPathsD", "SimplifyPathsD(%v, eps=%v, closed=%v)[%d] = %v, but SimplifyPathD of that path alone gives %v (set %d)", set, eps, closed, i, gd[i], wd, si)
							}
						}
					}
				}
			}
			for _, eps := range huge {
				g := clipper.SimplifyPath64(enum.ClonePath(in), eps, false)
				gD := clipper.PathDToPath64(clipper.SimplifyPathD(clipper.Path64ToPathD(in), eps, false))
				gp := clipper.SimplifyPaths64(Paths{in}, eps, false)
				c.Exec(3)
				if len(gp) != 1 {
					c.Fail("paths-count", "SimplifyPaths64 huge epsilon", "SimplifyPaths64 of one path returned %d paths", len(gp))
					continue
				}
				for k, got := range []Path{g, gD, gp[0]} {
					name := []string{"SimplifyPath64", "SimplifyPathD", "SimplifyPaths64"}[k]
					if len(got) < 2 || got[0] != in[0] || got[len(got)-1] != in[len(in)-1] {
						c.Fail("open-ends", name+" huge epsilon", "%s(%v, epsilon=%g, open): end points not kept: %v", name, in, eps, got)
					} else if !isSubsequence(got, in) {
						c.Fail("not-subsequence", name+" huge epsilon", "%s(%v, epsilon=%g, open): result %v is not a sub-sequence of the input", name, in, eps, got)
					}
				}
			}
			if differs {
				c.Nontriv()
				c.Count("paths_partially_simplified", 1)
			}
		}}
}

func init() {
	drv.Register(&drv.Check{
		ID:    "C16",
		Title: "SimplifyPath removes only near-collinear vertices and stops when none is left",
		Rule: "every path of P(3,3..6), P(4,4..5) under unit, stride-10 and shallow-angle embeddings x epsilon in {0,.5,1,1.5,2,5,12} x {closed,open} through SimplifyPath64, SimplifyPathD (same numbers and path/4 with eps/4), SimplifyPaths64; the Paths variants (64 and D) with three or four paths of different lengths per call, each result equal to that of the single-path function; open paths under epsilons 3.1e9 ... +Inf (end points kept); each case re-run translated by (2^20,-2^20) and (2^29-200,2^29-200) and scaled by 2^4, 2^12, 2^20, 2^24 (path and epsilon). " +
			"Oracle: sub-sequence; open end points kept; exact big-integer test that no retained vertex is (clearly, 1e-9 relative guard) within epsilon of the line through its retained neighbours; epsilon 0 keeps the exact area of closed paths; < 4 points returned as is; identical retained vertices across translated / scaled / D runs. non-trivial = path from which some but not all vertices were removed",
		Assumptions:      []string{"<= 6 vertices; a vertex at a distance within 1e-9 (relative) of epsilon is accepted either way (float64 rounding of the library's squared distance)"},
		RequiredCounters: []string{"paths_partially_simplified"},
		Scopes: func(tier string) []*drv.Scope {
			out := []*drv.Scope{c16BoundaryScope()}
			maxN := 6
			for _, e := range []enum.Embed{enum.Eunit, enum.Eax, enum.Ean} {
				for n := 3; n <= maxN; n++ {
					if n == 6 && tier == "quick" && e.Name != "E_an" {
						continue
					}
					out = append(out, c16Scope(e, 3, n, n-2))
				}
			}
			out = append(out, c16Scope(enum.Eunit, 4, 4, 3), c16Scope(enum.Ean, 4, 4, 3))
			for n := 4; n <= 5; n++ {
				out = append(out, c16Scope(enum.EbigOdd, 3, n, n-2)) // differences near 2^28 with many significant bits
			}
			if tier == "quick" {
				out = append(out, c16MultiScope(enum.Eunit, 5, 1, 2), c16MultiScope(enum.Ean, 6, 7, 3), c16MultiScope(enum.EbigOdd, 5, 2, 3))
			} else {
				out = append(out, c16MultiScope(enum.Eunit, 5, 1, 2), c16MultiScope(enum.Eunit, 6, 1, 3), c16MultiScope(enum.Ean, 6, 1, 3), c16MultiScope(enum.EbigOdd, 5, 1, 3), c16MultiScope(enum.Eax, 6, 1, 3))
			}
			if tier == "thorough" {
				out = append(out, c16Scope(enum.Eunit, 4, 5, 4), c16Scope(enum.Eax, 4, 5, 4), c16Scope(enum.Esh, 3, 6, 4), c16Scope(enum.Ean, 3, 7, 5))
			}
			return out
		},
	})
}
