package checks

import (
	"fmt"

	clipper "github.com/bolom009/go-clipper2"

	"verif/internal/drv"
	"verif/internal/enum"
	"verif/internal/oracle"
)

// farScaled: is the point (px,py)/S farther than `units` from every edge of the closed paths?
func farScaled(px, py, S, units int64, sets ...Paths) bool {
	g := oracle.Grid{S: S}
	return g.FarFromEdges(px, py, units, true, sets...)
}

// windScaled: exact winding number of (px,py)/S w.r.t. closed paths (int64 arithmetic; coordinates < 2^20).
func windScaled(ps Paths, S, px, py int64) (w int, on bool) {
	for _, p := range ps {
		n := len(p)
		for e := 0; e < n; e++ {
			a, b := p[e], p[(e+1)%n]
			ax, ay, bx, by := a.X*S, a.Y*S, b.X*S, b.Y*S
			cr := (bx-ax)*(py-ay) - (by-ay)*(px-ax)
			if cr == 0 && px >= min(ax, bx) && px <= max(ax, bx) && py >= min(ay, by) && py <= max(ay, by) {
				on = true
			}
			if ay <= py && by > py {
				if cr > 0 {
					w++
				}
			} else if by <= py && ay > py {
				if cr < 0 {
					w--
				}
			}
		}
	}
	return w, on
}

type c09Input struct {
	lines  Paths // open subjects
	closed Paths // closed subjects (may be nil)
	clip   Paths
}

func c09Run(lines, closedS, clip Paths, ct clipper.ClipType, fr clipper.FillRule) (cl, op Paths, ok bool) {
	e := clipper.NewClipper64()
	e.AddPaths(lines, clipper.Subject, true)
	if closedS != nil {
		e.AddPaths(closedS, clipper.Subject, false)
	}
	e.AddPaths(clip, clipper.Clip, false)
	ok = e.ExecuteOC(ct, fr, &cl, &op)
	return
}

func c09Check(c *drv.Ctx, in c09Input, ct clipper.ClipType, fr clipper.FillRule, cl, op Paths, tag string) bool {
	const S = 32
	const g = 1e-6
	covered := false
	// open solution stays on the subject lines
	for _, p := range op {
		if len(p) == 0 {
			c.Fail("empty-open-path", tag, "%s: empty path in the open solution %v; lines %v clip %v", tag, op, in.lines, in.clip)
			return false
		}
		if len(p) == 1 {
			// a zero-length piece (the line touches the boundary in one point): a degenerate sub-polyline, counted
			c.Count("single_point_open_paths", 1)
		}
		for i := range p {
			x, y := float64(p[i].X), float64(p[i].Y)
			if d := distPtPolylines(x, y, in.lines); d > 1.5+g {
				c.Fail("open-off-line", tag, "%s: open solution vertex %v is %.2f units from the subject lines %v; clip %v closed %v open solution %v", tag, p[i], d, in.lines, in.clip, in.closed, op)
				return false
			}
			if i+1 < len(p) {
				mx, my := (x+float64(p[i+1].X))/2, (y+float64(p[i+1].Y))/2
				if d := distPtPolylines(mx, my, in.lines); d > 1.5+g {
					c.Fail("open-off-line", tag, "%s: midpoint of open solution segment %v-%v is %.2f units from the subject lines %v; clip %v open solution %v", tag, p[i], p[i+1], d, in.lines, in.clip, op)
					return false
				}
			}
		}
	}
	if ct == clipper.Xor {
		return false // the property does not define coverage for Xor
	}
	for _, ln := range in.lines {
		for i := 0; i+1 < len(ln); i++ {
			a, b := ln[i], ln[i+1]
			if a == b {
				continue
			}
			for j := 0; j < 16; j++ {
				k := int64(2*j + 1)
				px, py := S*a.X+k*(b.X-a.X), S*a.Y+k*(b.Y-a.Y)
				if !farScaled(px, py, S, 2, in.clip, in.closed) {
					continue
				}
				wc, _ := windScaled(in.clip, S, px, py)
				ws, _ := windScaled(in.closed, S, px, py)
				inClip, inSubj := oracle.Fill(fr, int16(wc)), oracle.Fill(fr, int16(ws))
				var want bool
				switch ct {
				case clipper.Intersection:
					want = inClip
				case clipper.Difference:
					want = !inClip
				default: // Union
					want = !inClip && !inSubj
				}
				d := distPtPolylines(float64(px)/S, float64(py)/S, op)
				if want {
					covered = true
					if d > 1+g {
						c.Fail("not-covered", tag, "%s: point (%.3f,%.3f) of line %v (winding clip=%d closed-subject=%d, > 2 units from every closed edge) must be in the open solution but is %.3f units from it; clip %v closed %v open solution %v", tag, float64(px)/S, float64(py)/S, ln, wc, ws, d, in.clip, in.closed, op)
						return covered
					}
				} else if d < 0.5-g {
					c.Fail("wrongly-covered", tag, "%s: point (%.3f,%.3f) of line %v (winding clip=%d closed-subject=%d, > 2 units from every closed edge) must not be in the open solution but is %.3f units from it; clip %v closed %v open solution %v", tag, float64(px)/S, float64(py)/S, ln, wc, ws, d, in.clip, in.closed, op)
					return covered
				}
			}
		}
	}
	return covered
}

// all open polylines of 2..3 vertices over L(k)
type lineAlpha struct {
	k    int
	e    enum.Embed
	n2   uint64
	size uint64
	loop bool
	four bool // every open polyline of exactly 4 vertices (zigzags, doubled-back horizontal runs, notches below a peak)
	nv   int  // with four: the vertex count (4 or 5)
	step uint64
}

func newLineAlpha(k int, e enum.Embed, maxN int) *lineAlpha {
	a := &lineAlpha{k: k, e: e, n2: enum.PathCount(k, 2)}
	a.size = a.n2
	if maxN >= 3 {
		a.size += enum.PathCount(k, 3)
	}
	return a
}

func (a *lineAlpha) get(i uint64, buf Path) Path {
	if a.four {
		return enum.UnrankPath(i*a.step, a.k, a.nv, a.e, buf)
	}
	if a.loop {
		// an open path that returns to its start: p0, p1, p2, p0
		buf = enum.UnrankPath(i, a.k, 3, a.e, buf)
		return append(buf, buf[0])
	}
	if i < a.n2 {
		return enum.UnrankPath(i, a.k, 2, a.e, buf)
	}
	return enum.UnrankPath(i-a.n2, a.k, 3, a.e, buf)
}

func c09Scope(e enum.Embed, lineK, lineN, clipN int, withClosedSubject bool, level int, stride uint64) *drv.Scope {
	la := newLineAlpha(lineK, e, lineN)
	if lineN == 4 {
		// lineN == 4 stands for the family of open loops p0,p1,p2,p0 (an open path may end where it starts)
		la = &lineAlpha{k: lineK, e: e, loop: true, size: enum.PathCount(lineK, 3)}
	}
	if lineN == 5 {
		// lineN == 5 stands for the family of all 4-vertex open polylines
		la = &lineAlpha{k: lineK, e: e, four: true, nv: 4, step: 1, size: enum.PathCount(lineK, 4)}
	}
	if lineN >= 40 && lineN < 50 {
		// lineN = 40+s stands for every s-th 4-vertex open polyline (s coprime to 9)
		st := uint64(lineN - 40)
		la = &lineAlpha{k: lineK, e: e, four: true, nv: 4, step: st, size: (enum.PathCount(lineK, 4) + st - 1) / st}
	}
	if lineN >= 50 {
		// lineN = 50+s stands for every s-th 5-vertex open polyline (s coprime to 9)
		st := uint64(lineN - 50)
		la = &lineAlpha{k: lineK, e: e, four: true, nv: 5, step: st, size: (enum.PathCount(lineK, 5) + st - 1) / st}
	}
	nC := enum.PathCount(3, clipN)
	nS := uint64(1)
	nC = (nC + stride - 1) / stride
	if withClosedSubject {
		nS = nC
	}
	var lb, cb, sb Path
	var reg oracle.Region
	name := fmt.Sprintf("open/lines(L%d,2..%d) x every %d-th clip of P(3,%d)/%s", lineK, lineN, stride, clipN, e.Name)
	if la.loop {
		name = fmt.Sprintf("open/loops p0,p1,p2,p0 over L%d x every %d-th clip of P(3,%d)/%s", lineK, stride, clipN, e.Name)
	}
	if la.four {
		name = fmt.Sprintf("open/every %d-th %d-vertex polyline over L%d x every %d-th clip of P(3,%d)/%s", la.step, la.nv, lineK, stride, clipN, e.Name)
	}
	if withClosedSubject {
		name = fmt.Sprintf("open3/lines(L%d,2) x every %d-th closed subject of P(3,3) x every %d-th clip of P(3,%d)/%s", lineK, stride, stride, clipN, e.Name)
		if la.four {
			name = fmt.Sprintf("open3/every %d-th %d-vertex polyline over L%d x every %d-th closed subject of P(3,3) x every %d-th clip of P(3,%d)/%s", la.step, la.nv, lineK, stride, stride, clipN, e.Name)
		}
	}
	gen := func(idx uint64) c09Input {
		lb = la.get(idx%la.size, lb)
		cb = enum.UnrankPath((idx/la.size)%nC*stride, 3, clipN, e, cb)
		in := c09Input{lines: Paths{lb}, clip: Paths{cb}}
		if withClosedSubject {
			sb = enum.UnrankPath(idx/(la.size*nC)*stride, 3, 3, e, sb)
			in.closed = Paths{sb}
		}
		return in
	}
	return &drv.Scope{Name: name, Level: level, Size: la.size * nC * nS,
		Show: func(idx uint64) any {
			in := gen(idx)
			return map[string]any{"open subject": pathsLit(in.lines), "closed subject": pathsLit(in.closed), "clip": pathsLit(in.clip)}
		},
		Run: func(c *drv.Ctx, idx uint64) {
			in := gen(idx)
			nt := false
			cts := allClipTypes
			if withClosedSubject {
				cts = []clipper.ClipType{clipper.Union, clipper.Difference, clipper.Intersection}
			}
			for _, fr := range allFillRules {
				for _, ct := range cts {
					tag := cfgName(ct, fr)
					cl, op, ok := c09Run(in.lines, in.closed, in.clip, ct, fr)
					c.Exec(1)
					c.Output(enum.HashPaths(op) + uint64(ct)*7)
					if !ok {
						c.Fail("execute-false", tag, "%s: ExecuteOC returned false; lines %v closed %v clip %v", tag, in.lines, in.closed, in.clip)
					}
					if c09Check(c, in, ct, fr, cl, op, tag) {
						nt = true
					}
					// open paths never appear in, or alter, the closed solution
					var subj Paths
					if in.closed != nil {
						subj = in.closed
					} else {
						subj = Paths{}
					}
					ref := clipper.BooleanOpPaths64(ct, subj, in.clip, fr)
					c.Exec(1)
					if !enum.EqualPaths(cl, ref) && !(len(cl) == 0 && len(ref) == 0) {
						// extra exactly-collinear vertices where a line crosses an edge do not alter the solution
						if canonPaths(dropCollinear(cl)) != canonPaths(dropCollinear(ref)) {
							reg.SetInput(in.clip, in.closed, 4, 4, 3)
							if m := reg.SameRegion(cl, ref, 2, in.clip, in.closed); m != nil {
								c.Fail("closed-altered", tag, "%s: closed solution %v with the open subject present differs in region from %v without it: %s; lines %v closed %v clip %v", tag, cl, ref, m.String(), in.lines, in.closed, in.clip)
							}
						}
						c.Count("closed_vertex_lists_differ_but_equal_up_to_collinear_vertices_or_region", 1)
					}
					if idx%32 == 0 && !withClosedSubject {
						// ClipperD at precision 0 and the tree execution must give the same open paths
						ed := clipper.NewClipperD(0)
						ed.AddPaths(clipper.Paths64ToPathsD(in.lines), clipper.Subject, true)
						ed.AddPaths(clipper.Paths64ToPathsD(in.clip), clipper.Clip, false)
						var dc, do clipper.PathsD
						ed.ExecuteOC(ct, fr, &dc, &do)
						c.Exec(1)
						if canonOpen(scaleBack(do, 1)) != canonOpen(op) {
							c.Fail("D-open", tag, "%s: ClipperD(0).ExecuteOC open solution %v differs from Clipper64's %v; lines %v clip %v", tag, do, op, in.lines, in.clip)
						}
						et := clipper.NewClipper64()
						et.AddPaths(in.lines, clipper.Subject, true)
						et.AddPaths(in.clip, clipper.Clip, false)
						tree := clipper.NewPolyTree64()
						var to clipper.PathsD
						et.ExecutePolyTree64(ct, fr, tree, &to)
						c.Exec(1)
						if canonOpen(scaleBack(to, 1)) != canonOpen(op) {
							c.Fail("tree-open", tag, "%s: ExecutePolyTree64 open paths %v differ from ExecuteOC's %v; lines %v clip %v", tag, to, op, in.lines, in.clip)
						}
						var polys Paths
						for _, n := range flattenTree(tree.PolyPathBase) {
							polys = append(polys, n.poly)
						}
						if canonPaths(polys) != canonPaths(cl) {
							c.Fail("tree-closed", tag, "%s: ExecutePolyTree64 polygons %v differ from the closed solution %v when open subjects are present; lines %v clip %v", tag, polys, cl, in.lines, in.clip)
						}
					}
				}
			}
			if nt {
				c.Nontriv()
				c.Count("inputs_with_a_covered_sample_point", 1)
			}
		}}
}

func init() {
	drv.Register(&drv.Check{
		ID:    "C09",
		Title: "Open subject paths are cut exactly at the clip region boundary",
		Rule: "every open polyline with 2-3 vertices over L(4), every open loop p0,p1,p2,p0, every 4-vertex and every 7th [every] 5-vertex open polyline over L(3) (zigzags, horizontal spikes at a flat top, doubled-back horizontal runs, notches below a peak; horizontal segments, starting/ending on clip edges and vertices included) x every clip of P(3,3) [and P(3,4)] under stride-10 and sheared embeddings x 4 clip types x 4 fill rules through Clipper64.AddPaths(open)+ExecuteOC; three-party scopes (2-point line, and every 7th 4-vertex polyline, x closed subject P(3,3) x clip P(3,3)) for the Union clause and for open paths crossing each other inside a closed subject; on every 32nd input ClipperD(0).ExecuteOC and ExecutePolyTree64. " +
			"Oracle: each subject segment sampled at t=(2j+1)/32 (exact rationals); a sample > 2 units (exact) from every closed input edge is classified by exact winding and fill rule: expected covered (Intersection: in clip; Difference: not in clip; Union: in neither closed region) => within 1 unit of the open solution, otherwise farther than 0.5; every open-solution vertex and segment midpoint within 1.5 of the subject lines; closed solution bit-identical to the one computed without the open paths. non-trivial = input with a sample that must be covered",
		Assumptions:      []string{"lines of <= 5 vertices, one clip polygon of <= 4 vertices; float64 distances with 1e-6 guard on coordinates < 2^12"},
		RequiredCounters: []string{"inputs_with_a_covered_sample_point"},
		Scopes: func(tier string) []*drv.Scope {
			var out []*drv.Scope
			if tier == "quick" {
				out = append(out, c09Scope(enum.Eax, 4, 2, 3, false, 1, 1), c09Scope(enum.Esh, 3, 3, 3, false, 2, 3), c09Scope(enum.Eax, 3, 2, 3, true, 3, 13), c09Scope(enum.Eax, 3, 4, 3, false, 3, 10), c09Scope(enum.Eax, 3, 5, 3, false, 4, 10), c09Scope(enum.Eax, 3, 57, 3, false, 5, 37), c09Scope(enum.Eax, 3, 47, 3, true, 5, 41))
				return out
			}
			for _, e := range []enum.Embed{enum.Eax, enum.Esh} {
				out = append(out, c09Scope(e, 4, 2, 3, false, 1, 1), c09Scope(e, 4, 3, 3, false, 2, 1), c09Scope(e, 4, 2, 4, false, 3, 1), c09Scope(e, 3, 2, 3, true, 3, 5))
			}
			out = append(out, c09Scope(enum.Eax, 4, 3, 4, false, 4, 1), c09Scope(enum.Eax, 3, 4, 3, false, 3, 1), c09Scope(enum.Esh, 4, 4, 3, false, 4, 3), c09Scope(enum.Eax, 3, 5, 3, false, 4, 1), c09Scope(enum.Esh, 3, 5, 3, false, 4, 4), c09Scope(enum.Eax, 3, 51, 3, false, 5, 10), c09Scope(enum.Esh, 3, 52, 3, false, 5, 37), c09Scope(enum.Eax, 3, 42, 3, true, 5, 20))
			return out
		},
	})
}

// dropCollinear removes vertices that are exactly collinear with their current neighbours (fixed point).
func dropCollinear(ps Paths) Paths {
	out := make(Paths, 0, len(ps))
	for _, p := range ps {
		q := enum.ClonePath(p)
		for changed := true; changed && len(q) >= 3; {
			changed = false
			for i := 0; i < len(q); i++ {
				a, b, cc := q[(i-1+len(q))%len(q)], q[i], q[(i+1)%len(q)]
				if oracle.Cross64(a, b, cc) == 0 {
					q = append(q[:i], q[i+1:]...)
					changed = true
					break
				}
			}
		}
		if len(q) >= 3 {
			out = append(out, q)
		}
	}
	return out
}
