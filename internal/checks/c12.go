package checks

import (
	"bufio"
	"bytes"
	"crypto/sha256"
	"encoding/json"
	"fmt"
	"os"
	"os/exec"
	"sort"
	"strings"
	"sync"
	"sync/atomic"

	clipper "github.com/bolom009/go-clipper2"

	"verif/internal/drv"
	"verif/internal/enum"
	"verif/internal/oracle"
)

// ---- explicit-state search over operation histories ---------------------------------
//
// A state is the history that reaches it; its canonical form is the hook's
// structural dump of the object. Successor = replay the history on a fresh
// object + one more operation. Every Execute-like transition is compared with a
// fresh object that received the same paths (same order) and runs only that
// operation.

type c12Obs struct {
	ok     bool
	closed Paths
	open   Paths
	tree   string
	note   string // e.g. "solution was appended to"
	isExec bool
}

type c12Machine interface {
	apply(op int) c12Obs
	dump(full bool) string
}

type c12Model struct {
	name    string
	ops     []string
	isAdd   []bool
	fresh   func() c12Machine
	maxAdds int
	inputs  []Paths // caller-owned inputs that must never change
	edges   []Paths // closed input edges for the band of region comparisons
	// refOps maps an exec op to the op a fresh engine runs (fresh solution argument)
	refOp func(op int) int
	// coordScale: observations are in units of 1/coordScale (100 for ClipperD at precision 2)
	coordScale int64
}

func (md *c12Model) scaledEdges() []Paths {
	k := md.coordScale
	if k <= 1 {
		return md.edges
	}
	out := make([]Paths, len(md.edges))
	for i, ps := range md.edges {
		out[i] = mapPaths(ps, coordMap(func(p Pt) Pt { return Pt{X: p.X * k, Y: p.Y * k} }))
	}
	return out
}

func (md *c12Model) newRegion() *oracle.Region {
	k := max(md.coordScale, 1)
	var reg oracle.Region
	var all Paths
	for _, ps := range md.scaledEdges() {
		all = append(all, ps...)
	}
	reg.SetInput(all, nil, 4, 4*k, 20*k)
	return &reg
}

// ---- Clipper64 / ClipperD machines ----

var (
	c12S1 = Paths{{{0, 0}, {40, 0}, {40, 40}, {0, 40}}}
	c12S2 = Paths{{{20, 10}, {30, 60}, {70, 20}}}
	c12C1 = Paths{{{10, -10}, {60, 30}, {50, 50}, {-10, 50}}, {{20, 20}, {20, 35}, {35, 35}, {35, 20}}}
	c12O1 = Paths{{{-20, 25}, {80, 25}}, {{5, -20}, {35, 70}, {65, -20}}}
)

type c12Cfg struct {
	ct clipper.ClipType
	fr clipper.FillRule
}

func c12Cfgs(full bool) []c12Cfg {
	out := []c12Cfg{{clipper.NoClip, clipper.EvenOdd}}
	for _, ct := range allClipTypes {
		for _, fr := range allFillRules {
			if !full && !(fr == clipper.NonZero || (fr == clipper.EvenOdd && ct == clipper.Xor) || (fr == clipper.Negative && ct == clipper.Union) || (fr == clipper.Positive && ct == clipper.Difference)) {
				continue
			}
			out = append(out, c12Cfg{ct, fr})
		}
	}
	return out
}

type engine64 struct {
	e        interface{}
	isD      bool
	cfgs     []c12Cfg
	prev     *Paths
	prevOpen *Paths
	prevD    *clipper.PathsD
	prevOD   *clipper.PathsD
	nAdd     int
}

const (
	c12FormExecute = iota
	c12FormOC
	c12FormTree
)

var c12Junk = Paths{{{1, 1}, {2, 2}, {3, 1}}, {{7, 7}, {9, 9}, {9, 7}}}

func canonOpen(ps Paths) string {
	strs := make([]string, 0, len(ps))
	for _, p := range ps {
		a, b := fmt.Sprint(p), fmt.Sprint(clipper.ReversePath(p))
		if b < a {
			a = b
		}
		strs = append(strs, a)
	}
	sort.Strings(strs)
	return strings.Join(strs, "|")
}

func canonTree(n *clipper.PolyPathBase) string {
	var kids []string
	for _, ch := range n.GetChildren() {
		kids = append(kids, canonTree(ch))
	}
	sort.Strings(kids)
	return "(" + canonPaths(Paths{n.Polygon()}) + fmt.Sprintf(" hole=%v", n.IsHole()) + strings.Join(kids, "") + ")"
}

func scaleBack(ps clipper.PathsD, scale float64) Paths {
	out := make(Paths, len(ps))
	for i, p := range ps {
		out[i] = make(Path, len(p))
		for j, q := range p {
			out[i][j] = Pt{X: int64(roundHalfAway(q.X * scale)), Y: int64(roundHalfAway(q.Y * scale))}
		}
	}
	return out
}

func roundHalfAway(v float64) float64 {
	if v < 0 {
		return -float64(int64(-v + 0.5))
	}
	return float64(int64(v + 0.5))
}

func (m *engine64) apply(op int) (obs c12Obs) {
	nAddOps := 5
	if op < nAddOps {
		var ps Paths
		pt := clipper.Subject
		open := false
		switch op {
		case 0:
			ps = c12S1
		case 1:
			ps = c12S2
		case 2:
			ps, pt = c12C1, clipper.Clip
		case 3:
			ps, open = c12O1, true
		case 4:
			ps = Paths{c12S1[0], c12S2[0]}
		}
		if m.isD {
			m.e.(interface {
				AddPaths(clipper.PathsD, clipper.PathType, bool)
			}).AddPaths(clipper.Paths64ToPathsD(ps), pt, open)
		} else if op == 4 {
			// the single-path entry point, once per path
			for _, p := range ps {
				m.e.(interface {
					AddPath(Path, clipper.PathType, bool)
				}).AddPath(p, pt, open)
			}
		} else {
			m.e.(interface {
				AddPaths(Paths, clipper.PathType, bool)
			}).AddPaths(ps, pt, open)
		}
		return c12Obs{}
	}
	x := op - nAddOps
	mode := x % 3 // 0 fresh, 1 junk, 2 previous
	x /= 3
	form := x % 3
	cfg := m.cfgs[x/3]
	obs = c12Obs{isExec: true}
	if m.isD {
		e := m.e.(interface {
			Execute(clipper.ClipType, clipper.FillRule, *clipper.PathsD) bool
			ExecuteOC(clipper.ClipType, clipper.FillRule, *clipper.PathsD, *clipper.PathsD) bool
			ExecutePolyTreeD(clipper.ClipType, clipper.FillRule, *clipper.PolyTreeD, *clipper.PathsD) bool
		})
		var cl, op2 *clipper.PathsD
		switch mode {
		case 0:
			cl, op2 = new(clipper.PathsD), new(clipper.PathsD)
		case 1:
			j1, j2 := clipper.Paths64ToPathsD(c12Junk), clipper.Paths64ToPathsD(c12Junk[:1])
			cl, op2 = &j1, &j2
		default:
			if m.prevD == nil {
				m.prevD, m.prevOD = new(clipper.PathsD), new(clipper.PathsD)
			}
			cl, op2 = m.prevD, m.prevOD
		}
		switch form {
		case c12FormExecute:
			obs.ok = e.Execute(cfg.ct, cfg.fr, cl)
			obs.closed = scaleBack(*cl, 100)
		case c12FormOC:
			obs.ok = e.ExecuteOC(cfg.ct, cfg.fr, cl, op2)
			obs.closed, obs.open = scaleBack(*cl, 100), scaleBack(*op2, 100)
		default:
			t := clipper.NewPolyTreeD()
			if mode == 1 {
				t.AddChild(c12Junk[0])
			}
			obs.ok = e.ExecutePolyTreeD(cfg.ct, cfg.fr, t, op2)
			obs.tree = canonTree(t.PolyPathBase)
			obs.open = scaleBack(*op2, 100)
		}
		m.prevD, m.prevOD = cl, op2
		return obs
	}
	e := m.e.(interface {
		Execute(clipper.ClipType, clipper.FillRule, *Paths) bool
		ExecuteOC(clipper.ClipType, clipper.FillRule, *Paths, *Paths) bool
		ExecutePolyTree64(clipper.ClipType, clipper.FillRule, *clipper.PolyTree64, *clipper.PathsD) bool
	})
	var cl, op2 *Paths
	switch mode {
	case 0:
		cl, op2 = new(Paths), new(Paths)
	case 1:
		// junk with spare capacity (16 points each): room for a whole new path, should the engine recycle the buffers
		roomy := func(ps Paths) Paths {
			out := make(Paths, len(ps))
			for i, p := range ps {
				out[i] = append(make(Path, 0, 16), p...)
			}
			return out
		}
		j1, j2 := roomy(c12Junk), roomy(c12Junk[:1])
		cl, op2 = &j1, &j2
	default:
		if m.prev == nil {
			m.prev, m.prevOpen = new(Paths), new(Paths)
		}
		cl, op2 = m.prev, m.prevOpen
	}
	// the caller still holds the paths the solution arguments contain on entry (junk: think of a shallow copy of its
	// input paths; previous call: the answer it was given before): replacing the solution must not write into them
	var held, heldSnap Paths
	for _, s := range []*Paths{cl, op2} {
		for _, p := range *s {
			held = append(held, p[:cap(p)])
			heldSnap = append(heldSnap, enum.ClonePath(p[:cap(p)]))
		}
	}
	defer func() {
		for i := range held {
			if !enum.EqualPath(held[i], heldSnap[i]) {
				obs.note = fmt.Sprintf("a path the solution argument held on entry (still owned by the caller) was overwritten in place: %v became %v", heldSnap[i], held[i])
				return
			}
		}
	}()
	switch form {
	case c12FormExecute:
		obs.ok = e.Execute(cfg.ct, cfg.fr, cl)
		obs.closed = enum.ClonePaths(*cl)
	case c12FormOC:
		obs.ok = e.ExecuteOC(cfg.ct, cfg.fr, cl, op2)
		obs.closed, obs.open = enum.ClonePaths(*cl), enum.ClonePaths(*op2)
	default:
		t := clipper.NewPolyTree64()
		if mode == 1 {
			t.AddChild(c12Junk[0])
		}
		var od clipper.PathsD
		if mode == 1 {
			od = clipper.Paths64ToPathsD(c12Junk[:1])
		}
		obs.ok = e.ExecutePolyTree64(cfg.ct, cfg.fr, t, &od)
		obs.tree = canonTree(t.PolyPathBase)
		obs.open = scaleBack(od, 1)
	}
	m.prev, m.prevOpen = cl, op2
	return obs
}

func (m *engine64) dump(full bool) string {
	type d interface {
		VerifDumpState() string
		VerifDumpStateFull() string
	}
	if full {
		return m.e.(d).VerifDumpStateFull()
	}
	return m.e.(d).VerifDumpState()
}

func engineModel(isD, fullCfg bool, maxAdds int) *c12Model {
	cfgs := c12Cfgs(fullCfg)
	ops := []string{"AddPaths(S1, Subject, closed)", "AddPaths(S2, Subject, closed)", "AddPaths(C1, Clip, closed)", "AddPaths(O1, Subject, open)", "AddPath(S1[0]); AddPath(S2[0]) (AddPaths of both for ClipperD)"}
	isAdd := []bool{true, true, true, true, true}
	forms := []string{"Execute", "ExecuteOC", "ExecutePolyTree"}
	modes := []string{"fresh solution", "solution pre-loaded with junk", "solution object of the previous call"}
	for _, cfg := range cfgs {
		for f := 0; f < 3; f++ {
			for md := 0; md < 3; md++ {
				ops = append(ops, fmt.Sprintf("%s(%s, %s; %s)", forms[f], ctNames[cfg.ct], frNames[cfg.fr], modes[md]))
				isAdd = append(isAdd, false)
			}
		}
	}
	name := "Clipper64"
	if isD {
		name = "ClipperD(precision 2)"
	}
	return &c12Model{name: name, ops: ops, isAdd: isAdd, maxAdds: maxAdds,
		inputs: []Paths{c12S1, c12S2, c12C1, c12O1, c12Junk},
		edges:  []Paths{c12S1, c12S2, c12C1},
		fresh: func() c12Machine {
			if isD {
				return &engine64{e: clipper.NewClipperD(2), isD: true, cfgs: cfgs}
			}
			return &engine64{e: clipper.NewClipper64(), cfgs: cfgs}
		},
		refOp:      func(op int) int { return 5 + ((op-5)/3)*3 },
		coordScale: map[bool]int64{false: 1, true: 100}[isD],
	}
}

// ---- ClipperOffset machine ----

type offsetMachine struct {
	co   *clipper.ClipperOffset
	prev *Paths
}

var c12OffDeltas = []float64{5, -5, 0.3, 12}

var c12OffAdds = []struct {
	ps Paths
	jt clipper.JoinType
	et clipper.EndType
}{
	{c12S1, clipper.Miter, clipper.Polygon},
	{Paths{clipper.ReversePath(c12C1[0]), c12C1[1]}, clipper.Round, clipper.Polygon},
	{c12O1, clipper.Square, clipper.Butt},
	{c12O1, clipper.Round, clipper.RoundET},
	{Paths{c12S2[0], {{90, 90}}}, clipper.Bevel, clipper.Joined},
}

func (m *offsetMachine) apply(op int) c12Obs {
	if op < len(c12OffAdds) {
		a := c12OffAdds[op]
		m.co.AddPaths(a.ps, a.jt, a.et)
		return c12Obs{}
	}
	x := op - len(c12OffAdds)
	mode := x % 3
	d := c12OffDeltas[x/3]
	var sol *Paths
	switch mode {
	case 0:
		sol = new(Paths)
	case 1:
		j := enum.ClonePaths(c12Junk)
		sol = &j
	default:
		if m.prev == nil {
			m.prev = new(Paths)
		}
		sol = m.prev
	}
	m.co.Execute64(d, sol)
	m.prev = sol
	return c12Obs{isExec: true, ok: true, closed: enum.ClonePaths(*sol)}
}

func (m *offsetMachine) dump(full bool) string {
	if full {
		return m.co.VerifDumpStateFull()
	}
	return m.co.VerifDumpState()
}

func offsetModel(maxAdds int) *c12Model { return offsetModelArc(maxAdds, 0.25) }

// offsetModelArc: arc 0 is the object's default arc tolerance (derived from the delta of each execution)
func offsetModelArc(maxAdds int, arc float64) *c12Model {
	var ops []string
	var isAdd []bool
	for _, a := range c12OffAdds {
		ops = append(ops, fmt.Sprintf("AddPaths(%v, jt=%d, et=%d)", a.ps, a.jt, a.et))
		isAdd = append(isAdd, true)
	}
	modes := []string{"fresh solution", "solution pre-loaded with junk", "solution object of the previous call"}
	for _, d := range c12OffDeltas {
		for md := 0; md < 3; md++ {
			ops = append(ops, fmt.Sprintf("Execute64(%v; %s)", d, modes[md]))
			isAdd = append(isAdd, false)
		}
	}
	var edges []Paths
	for _, a := range c12OffAdds {
		edges = append(edges, a.ps)
	}
	name := "ClipperOffset"
	if arc == 0 {
		name = "ClipperOffset(default arc tolerance)"
	}
	return &c12Model{name: name, ops: ops, isAdd: isAdd, maxAdds: maxAdds,
		inputs: append([]Paths{c12Junk}, edges...), edges: edges,
		fresh: func() c12Machine { return &offsetMachine{co: clipper.NewClipperOffset(2, arc, false, false)} },
		refOp: func(op int) int { n := len(c12OffAdds); return n + ((op-n)/3)*3 },
	}
}

// ---- RectClip64 / RectClipLines64 machine (objects are reusable: results_/edges_ are per-object scratch) ----

type rectMachine struct {
	rc *clipper.RectClip64
	rl *clipper.RectClipLines64
}

var c12RectPaths = []Paths{
	{{{0, 20}, {40, 0}, {40, 40}}},                                                   // crosses
	{{{12, 12}, {28, 14}, {20, 28}}},                                                 // inside
	{{{0, 0}, {5, 0}, {5, 5}}},                                                       // outside
	{{{-10, -10}, {50, -10}, {50, 50}, {-10, 50}}},                                   // surrounds
	{{{10, 0}, {30, 0}, {30, 40}, {10, 40}}, {{0, 15}, {40, 15}, {40, 25}, {0, 25}}}, // runs along edges, two paths
	{{{10, 10}, {30, 10}, {30, 30}, {10, 30}}},                                       // the rectangle itself
}

func (m *rectMachine) apply(op int) c12Obs {
	n := len(c12RectPaths)
	if op < n {
		return c12Obs{isExec: true, ok: true, closed: enum.ClonePaths(m.rc.Execute(c12RectPaths[op]))}
	}
	return c12Obs{isExec: true, ok: true, open: enum.ClonePaths(m.rl.Execute(c12RectPaths[op-n]))}
}

func (m *rectMachine) dump(full bool) string {
	return m.rc.VerifDumpState() + "|" + m.rl.VerifDumpState()
}

func rectModel() *c12Model {
	var ops []string
	var isAdd []bool
	for i := range c12RectPaths {
		ops = append(ops, fmt.Sprintf("RectClip64.Execute(%v)", c12RectPaths[i]))
		isAdd = append(isAdd, false)
	}
	for i := range c12RectPaths {
		ops = append(ops, fmt.Sprintf("RectClipLines64.Execute(%v)", c12RectPaths[i]))
		isAdd = append(isAdd, false)
	}
	return &c12Model{name: "RectClip64+RectClipLines64(rect 10,10,30,30)", ops: ops, isAdd: isAdd, maxAdds: 0,
		inputs: c12RectPaths, edges: c12RectPaths, coordScale: 1,
		fresh: func() c12Machine {
			r := clipper.NewRect64(10, 10, 30, 30)
			return &rectMachine{rc: clipper.NewRectClip64(r), rl: clipper.NewRectClipLines64(r)}
		},
		refOp: func(op int) int { return op },
	}
}

// ---- the search ----

type c12Result struct {
	states, transitions, execTransitions, orderOnly uint64
	maxDepth                                        int
	closed                                          bool // no new state at the last level
	viol                                            []drv.Violation
	replays                                         []any
	samples                                         []any
	distinctOut                                     map[string]bool
}

func (md *c12Model) histNames(h []int) []string {
	out := make([]string, len(h))
	for i, op := range h {
		out[i] = md.ops[op]
	}
	return out
}

func (md *c12Model) run(hist []int, op int) (c12Obs, c12Machine, string) {
	m := md.fresh()
	var obs c12Obs
	pan := ""
	func() {
		defer func() {
			if r := recover(); r != nil {
				pan = fmt.Sprint(r)
			}
		}()
		for _, h := range hist {
			m.apply(h)
		}
		if op >= 0 {
			obs = m.apply(op)
		}
	}()
	return obs, m, pan
}

// compare returns "" when got is an acceptable answer given the reference.
func (md *c12Model) compare(got, ref c12Obs, reg *oracle.Region) (string, bool) {
	if got.note != "" {
		return got.note, false
	}
	if got.ok != ref.ok {
		return fmt.Sprintf("returned %v, a fresh engine returns %v", got.ok, ref.ok), false
	}
	if got.tree != ref.tree {
		return fmt.Sprintf("tree %s differs from a fresh engine's %s", got.tree, ref.tree), false
	}
	if canonOpen(got.open) != canonOpen(ref.open) {
		return fmt.Sprintf("open solution %v differs from a fresh engine's %v", got.open, ref.open), false
	}
	if enum.EqualPaths(got.closed, ref.closed) {
		return "", false
	}
	if canonPaths(got.closed) == canonPaths(ref.closed) {
		return "", true
	}
	// vertex lists differ: the property is about the result; accept only region-equal answers
	if m := reg.SameRegion(got.closed, ref.closed, 2*max(md.coordScale, 1), md.scaledEdges()...); m != nil {
		return fmt.Sprintf("closed solution %v differs in region from a fresh engine's %v: %s", got.closed, ref.closed, m.String()), false
	}
	if len(got.closed) != len(ref.closed) {
		return fmt.Sprintf("closed solution has %d paths %v, a fresh engine returns %d paths %v (solution argument appended to / not replaced?)", len(got.closed), got.closed, len(ref.closed), ref.closed), false
	}
	return "", true
}

// c12Exp is what expanding one (history, op) pair yields.
type c12Exp struct {
	Op        int    `json:"op"`
	Hash      string `json:"h,omitempty"` // state hash after the transition ("" after a panic)
	IsExec    bool   `json:"x,omitempty"`
	OrderOnly bool   `json:"o,omitempty"`
	OutKey    string `json:"k,omitempty"`
	Kind      string `json:"vk,omitempty"`
	Detail    string `json:"vd,omitempty"`
}

type c12ExpLine struct {
	Hist []int    `json:"hist"`
	Exp  []c12Exp `json:"exp"`
	Mod  string   `json:"mod,omitempty"` // caller-owned input modified
}

func shortHash(b []byte) string {
	h := sha256.Sum256(b)
	return string(h[:16])
}

// expand runs every enabled operation after hist (each on a fresh object with
// hist replayed) and checks Execute-like transitions against a fresh engine.
func (md *c12Model) expand(hist []int, fullDump bool, refCache map[string]c12Obs, reg *oracle.Region, pristine []string) c12ExpLine {
	line := c12ExpLine{Hist: hist}
	adds := 0
	used := map[int]bool{}
	var addSeq []int
	for _, h := range hist {
		if md.isAdd[h] {
			adds++
			used[h] = true
			addSeq = append(addSeq, h)
		}
	}
	for op := range md.ops {
		if md.isAdd[op] && (adds >= md.maxAdds || used[op]) {
			continue
		}
		obs, m, pan := md.run(hist, op)
		e := c12Exp{Op: op, IsExec: obs.isExec}
		if pan != "" {
			e.Kind, e.Detail = "panic", fmt.Sprintf("%s: after %v, %s panicked: %s", md.name, md.histNames(hist), md.ops[op], pan)
		} else {
			if obs.isExec {
				key := fmt.Sprint(addSeq, md.refOp(op))
				ref, ok := refCache[key]
				if !ok {
					ref, _, _ = md.run(addSeq, md.refOp(op))
					refCache[key] = ref
				}
				why, oo := md.compare(obs, ref, reg)
				e.OrderOnly = oo
				if why != "" {
					e.Kind, e.Detail = "history-dependence", fmt.Sprintf("%s: after %v, %s: %s", md.name, md.histNames(hist), md.ops[op], why)
				}
				e.OutKey = shortHash([]byte(canonPaths(obs.closed) + "#" + canonOpen(obs.open) + "#" + obs.tree))
			}
			e.Hash = shortHash([]byte(m.dump(fullDump)))
		}
		line.Exp = append(line.Exp, e)
	}
	for i, in := range md.inputs {
		if now := fmt.Sprint(in); now != pristine[i] {
			line.Mod = fmt.Sprintf("%s: a caller-owned input changed from %s to %s after history %v (+ one op)", md.name, pristine[i], now, md.histNames(hist))
			break
		}
	}
	return line
}

func c12Models(tier string) []struct {
	md       *c12Model
	depth    int
	fullDump bool
} {
	depth, adds, fullCfg := 5, 3, false
	if tier == "thorough" {
		depth, adds, fullCfg = 6, 4, true
	}
	return []struct {
		md       *c12Model
		depth    int
		fullDump bool
	}{
		{engineModel(false, fullCfg, adds), depth, true},
		{engineModel(true, false, adds), min(depth, 5), tier == "thorough"},
		{offsetModel(adds), depth + 1, true},
		{rectModel(), 4, false},
		{offsetModelArc(2, 0), depth, true},
	}
}

// c12ExpandMain is the worker side: "vcheck c12expand <tier> <model index>",
// histories on stdin (one JSON array per line), one c12ExpLine per line on stdout.
func c12ExpandMain(args []string) int {
	if len(args) < 2 {
		return 2
	}
	var mi int
	fmt.Sscan(args[1], &mi)
	mm := c12Models(args[0])[mi]
	md := mm.md
	var pristine []string
	for _, in := range md.inputs {
		pristine = append(pristine, fmt.Sprint(in))
	}
	reg := md.newRegion()
	refCache := map[string]c12Obs{}
	drv.StartWatchdog()
	in := bufio.NewScanner(os.Stdin)
	in.Buffer(make([]byte, 1<<16), 1<<22)
	out := bufio.NewWriter(os.Stdout)
	defer out.Flush()
	for in.Scan() {
		var hist []int
		if json.Unmarshal(in.Bytes(), &hist) != nil {
			continue
		}
		fmt.Fprintf(os.Stderr, "AT %s\n", in.Text())
		drv.WatchdogBegin(md.name, uint64(len(hist)))
		line := md.expand(hist, mm.fullDump, refCache, reg, pristine)
		drv.WatchdogEnd()
		b, _ := json.Marshal(line)
		out.Write(b)
		out.WriteByte('\n')
	}
	return 0
}

// search is the coordinator side of the level-synchronous breadth-first search.
func (md *c12Model) search(env *drv.Env, modelIdx, maxDepth int, fullDump bool) *c12Result {
	res := &c12Result{distinctOut: map[string]bool{}}
	seen := map[string]bool{}
	_, m0, _ := md.run(nil, -1)
	seen[shortHash([]byte(m0.dump(fullDump)))] = true
	res.states = 1
	frontier := [][]int{{}}
	for depth := 1; depth <= maxDepth && len(frontier) > 0; depth++ {
		nw := env.Workers
		if nw > len(frontier) {
			nw = len(frontier)
		}
		results := make([][]c12ExpLine, nw)
		var wg sync.WaitGroup
		var failed atomic.Bool
		var failMu sync.Mutex
		var failInfo [][2]string
		for w := 0; w < nw; w++ {
			w := w
			wg.Add(1)
			go func() {
				defer wg.Done()
				cmd := exec.Command(env.Exe, "c12expand", env.Tier, fmt.Sprint(modelIdx))
				cmd.Env = append(os.Environ(), "GOMAXPROCS=2")
				var inb bytes.Buffer
				for i := w; i < len(frontier); i += nw {
					b, _ := json.Marshal(frontier[i])
					inb.Write(b)
					inb.WriteByte('\n')
				}
				cmd.Stdin = &inb
				var errb bytes.Buffer
				cmd.Stderr = &errb
				outb, err := cmd.Output()
				if err != nil {
					failed.Store(true)
					se := errb.String()
					last := ""
					if i := strings.LastIndex(se, "AT "); i >= 0 {
						last = strings.SplitN(se[i+3:], "\n", 2)[0]
					}
					if len(se) > 800 {
						se = se[len(se)-800:]
					}
					failMu.Lock()
					failInfo = append(failInfo, [2]string{last, se})
					failMu.Unlock()
				}
				sc := bufio.NewScanner(bytes.NewReader(outb))
				sc.Buffer(make([]byte, 1<<20), 1<<26)
				for sc.Scan() {
					var l c12ExpLine
					if json.Unmarshal(sc.Bytes(), &l) == nil {
						results[w] = append(results[w], l)
					}
				}
			}()
		}
		wg.Wait()
		if failed.Load() {
			for _, fi := range failInfo {
				var h []int
				json.Unmarshal([]byte(fi[0]), &h)
				res.viol = append(res.viol, drv.Violation{Scope: md.name, Kind: "hang-or-crash", Detail: fmt.Sprintf("%s: the process expanding history %v (one more operation appended) hung (> %d s in one step) or died: %s", md.name, md.histNames(h), drv.HangSeconds, fi[1])})
				res.replays = append(res.replays, map[string]any{"model": md.name, "history": h, "note": "the failing operation is one of the operations enabled after this history"})
			}
			res.maxDepth = depth
			return res // the search cannot continue past a level with lost expansions
		}
		var all []c12ExpLine
		for _, r := range results {
			all = append(all, r...)
		}
		sort.Slice(all, func(i, j int) bool { return fmt.Sprint(all[i].Hist) < fmt.Sprint(all[j].Hist) })
		var next [][]int
		for _, l := range all {
			if l.Mod != "" && len(res.viol) < 50 {
				res.viol = append(res.viol, drv.Violation{Scope: md.name, Index: uint64(len(res.viol)), Kind: "input-modified", Detail: l.Mod})
				res.replays = append(res.replays, map[string]any{"model": md.name, "history": l.Hist})
			}
			for _, e := range l.Exp {
				res.transitions++
				h2 := append(append([]int{}, l.Hist...), e.Op)
				if e.IsExec {
					res.execTransitions++
					res.distinctOut[e.OutKey] = true
				}
				if e.OrderOnly {
					res.orderOnly++
				}
				if e.Kind != "" && len(res.viol) < 50 {
					res.viol = append(res.viol, drv.Violation{Scope: md.name, Index: uint64(len(res.viol)), Kind: e.Kind, Detail: e.Detail})
					res.replays = append(res.replays, map[string]any{"model": md.name, "history": h2, "history_ops": md.histNames(h2)})
				}
				if e.Hash != "" && !seen[e.Hash] {
					seen[e.Hash] = true
					res.states++
					next = append(next, h2)
					if len(res.samples) < 3 && len(h2) >= 3 {
						res.samples = append(res.samples, map[string]any{"model": md.name, "history": md.histNames(h2)})
					}
				}
			}
		}
		res.maxDepth = depth
		frontier = next
		if len(next) == 0 {
			res.closed = true
		}
	}
	return res
}

func c12Custom(env *drv.Env) *drv.Summary {
	sum := &drv.Summary{Counters: map[string]uint64{}, ViolCases: map[string][]uint64{}, Exhaustive: true, Extra: map[string]any{}}
	models := c12Models(env.Tier)
	type bound struct {
		Model       string `json:"model"`
		Ops         int    `json:"operations_in_alphabet"`
		Depth       int    `json:"history_depth_completed"`
		Closed      bool   `json:"no_new_state_at_last_level"`
		States      uint64 `json:"states"`
		Transitions uint64 `json:"transitions"`
		ExecTrans   uint64 `json:"execute_transitions_compared_with_fresh_engine"`
		OrderOnly   uint64 `json:"answers_equal_up_to_path_order_or_start"`
		Distinct    int    `json:"distinct_outputs"`
	}
	var bounds []bound
	for mi, mm := range models {
		r := mm.md.search(env, mi, mm.depth, mm.fullDump)
		sum.States += r.states
		sum.Transitions += r.transitions
		sum.Validated += r.execTransitions
		sum.Nontrivial += r.execTransitions
		sum.Samples = append(sum.Samples, r.samples...)
		sum.Distinct += uint64(len(r.distinctOut))
		bounds = append(bounds, bound{mm.md.name, len(mm.md.ops), r.maxDepth, r.closed, r.states, r.transitions, r.execTransitions, r.orderOnly, len(r.distinctOut)})
		for i, v := range r.viol {
			sum.Extra["replay:"+fmt.Sprint(len(sum.Viol))] = r.replays[i]
			sum.Viol = append(sum.Viol, v)
			sum.ViolCount++
		}
		if len(r.distinctOut) <= 3 {
			sum.Internal = append(sum.Internal, fmt.Sprintf("vacuity guard: %s search saw only %d distinct outputs", mm.md.name, len(r.distinctOut)))
		}
		fmt.Fprintf(env.Log, "  history search %-22s ops=%d depth=%d states=%d transitions=%d exec-compared=%d order-only=%d distinct-outputs=%d closed=%v\n",
			mm.md.name, len(mm.md.ops), r.maxDepth, r.states, r.transitions, r.execTransitions, r.orderOnly, len(r.distinctOut), r.closed)
	}
	sum.Extra["history_search"] = bounds
	sum.Evaluations = sum.Transitions

	// input immutability of all path-level library calls (scope machinery)
	scopes := c12ImmutScopes(env.Tier)
	s2 := drv.RunScopes(env, env.Exe, scopes, nil)
	sum.States += s2.States
	sum.Transitions += s2.Transitions
	sum.Validated += s2.Validated
	sum.Evaluations += s2.Evaluations
	sum.Nontrivial += s2.Nontrivial
	sum.Scopes = s2.Scopes
	sum.Distinct += s2.Distinct
	sum.Internal = append(sum.Internal, s2.Internal...)
	sum.Caps = append(sum.Caps, s2.Caps...)
	if !s2.Exhaustive {
		sum.Exhaustive = false
	}
	for k, v := range s2.Counters {
		sum.Counters[k] += v
	}
	for _, v := range s2.Viol {
		if len(sum.Viol) >= 60 {
			break
		}
		_, sc := scopeByNameC12(scopes, v.Scope)
		rp := map[string]any{"scope": v.Scope, "index": v.Index}
		if sc != nil && sc.Show != nil {
			rp["input"] = sc.Show(v.Index)
		}
		sum.Extra["replay:"+fmt.Sprint(len(sum.Viol))] = rp
		sum.Viol = append(sum.Viol, v)
		sum.ViolCount++
	}
	if sum.Counters["calls_with_input_snapshot_compared"] == 0 {
		sum.Internal = append(sum.Internal, "vacuity guard: immutability sweep compared nothing")
	}
	// keep one violation per (scope, kind)
	seenK := map[string]bool{}
	var keep []drv.Violation
	extra := map[string]any{}
	for i, v := range sum.Viol {
		k := v.Scope + "|" + v.Kind
		if seenK[k] {
			continue
		}
		seenK[k] = true
		extra["replay:"+fmt.Sprint(len(keep))] = sum.Extra["replay:"+fmt.Sprint(i)]
		keep = append(keep, v)
	}
	for k := range sum.Extra {
		if strings.HasPrefix(k, "replay:") {
			delete(sum.Extra, k)
		}
	}
	for k, v := range extra {
		sum.Extra[k] = v
	}
	sum.Viol = keep
	return sum
}

func scopeByNameC12(scopes []*drv.Scope, name string) (int, *drv.Scope) {
	for i, s := range scopes {
		if s.Name == name {
			return i, s
		}
	}
	return -1, nil
}

// c12Replay re-executes one recorded history (or immutability case) without the explorer.
func c12Replay(rp drv.Replay) int {
	var raw struct {
		Model   string `json:"model"`
		History []int  `json:"history"`
		Scope   string `json:"scope"`
		Index   uint64 `json:"index"`
	}
	if err := json.Unmarshal(rp.Custom, &raw); err != nil {
		fmt.Fprintln(os.Stderr, "bad replay:", err)
		return 2
	}
	if raw.Scope != "" {
		for _, tier := range []string{"quick", "thorough"} {
			for _, sc := range c12ImmutScopes(tier) {
				if sc.Name == raw.Scope {
					chk := &drv.Check{ID: "C12x", Scopes: func(string) []*drv.Scope { return []*drv.Scope{sc} }}
					viol, _, err := drv.ReplayCase(chk, raw.Scope, raw.Index)
					if err != nil {
						fmt.Fprintln(os.Stderr, err)
						return 2
					}
					for _, v := range viol {
						fmt.Printf("VIOLATION property=C12 replay=(file)\n  %s: %s\n", v.Kind, v.Detail)
					}
					if len(viol) > 0 {
						return 1
					}
					fmt.Println("no violation on this tree")
					return 0
				}
			}
		}
		return 2
	}
	var md *c12Model
	for _, cand := range []*c12Model{engineModel(false, true, 4), engineModel(false, false, 3), engineModel(true, false, 4), offsetModel(4), rectModel(), offsetModelArc(4, 0)} {
		if cand.name == raw.Model && len(raw.History) > 0 && raw.History[len(raw.History)-1] < len(cand.ops) {
			md = cand
			if strings.Contains(rp.Detail, cand.ops[raw.History[len(raw.History)-1]]) {
				break
			}
		}
	}
	if md == nil {
		fmt.Fprintln(os.Stderr, "unknown model", raw.Model)
		return 2
	}
	h := raw.History
	hist, op := h[:len(h)-1], h[len(h)-1]
	fmt.Printf("%s history: %v\n", md.name, md.histNames(h))
	obs, _, pan := md.run(hist, op)
	if pan != "" {
		fmt.Printf("VIOLATION property=C12 replay=(file)\n  panic: %s\n", pan)
		return 1
	}
	if !obs.isExec {
		fmt.Println("last operation is not an execution; nothing to compare")
		return 0
	}
	var addSeq []int
	for _, x := range hist {
		if md.isAdd[x] {
			addSeq = append(addSeq, x)
		}
	}
	ref, _, _ := md.run(addSeq, md.refOp(op))
	why, _ := md.compare(obs, ref, md.newRegion())
	fmt.Printf("got:   ok=%v closed=%v open=%v tree=%s\nfresh: ok=%v closed=%v open=%v tree=%s\n", obs.ok, obs.closed, obs.open, obs.tree, ref.ok, ref.closed, ref.open, ref.tree)
	if why != "" {
		fmt.Printf("VIOLATION property=C12 replay=(file)\n  %s\n", why)
		return 1
	}
	fmt.Println("no violation on this tree")
	return 0
}

func init() {
	drv.Register(&drv.Check{
		ID:    "C12",
		Title: "An engine's answer depends only on the paths added, not on its history",
		Rule: "explicit-state breadth-first search over operation histories of the real objects (Clipper64, ClipperD, ClipperOffset): alphabet = AddPaths of 5 fixed path sets (closed subjects, clip with hole, open lines; single and combined calls) and Execute / ExecuteOC / ExecutePolyTree for NoClip + (clip type, fill rule) pairs, each with a fresh, a junk-pre-loaded and the previous call's solution object; " +
			"a state is canonicalised by the hook's structural dump of every field (pointer graphs flattened, slice capacity and stale elements beyond the length included); successor = replay of the shortest history on a fresh object + 1 operation; every Execute-like transition is compared with a fresh object that received the same AddPaths calls and runs only that operation (ok flag, open paths and tree exactly; closed paths exactly or, when only order/start differ, region-equal); caller-owned inputs are compared with their pristine copies after every expansion. " +
			"Plus an input-immutability sweep: every path-level library call on every path of P(3,0..4) with a before/after deep comparison. non-trivial = Execute-like transitions compared with a fresh engine",
		Assumptions: []string{"history depth <= 4 (quick) / 6 (thorough), each AddPaths operation used at most once per history, <= 3/4 AddPaths per history", "states with equal structural dumps are merged (exact: the dump covers every field reachable from the object)"},
		Custom:      c12Custom,
		Scopes:      c12ImmutScopes,
	})
	drv.RegisterCustomReplay("C12", c12Replay)
	drv.Subcommands["c12expand"] = c12ExpandMain
}
