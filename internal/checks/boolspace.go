// Package checks holds one bounded-exhaustive check per property.
package checks

import (
	"fmt"

	clipper "github.com/bolom009/go-clipper2"

	"verif/internal/enum"
)

type Pt = clipper.Point64
type Path = clipper.Path64
type Paths = clipper.Paths64

var (
	allClipTypes = []clipper.ClipType{clipper.Intersection, clipper.Union, clipper.Difference, clipper.Xor}
	allFillRules = []clipper.FillRule{clipper.EvenOdd, clipper.NonZero, clipper.Positive, clipper.Negative}
	ctNames      = map[clipper.ClipType]string{clipper.NoClip: "NoClip", clipper.Intersection: "Intersection", clipper.Union: "Union", clipper.Difference: "Difference", clipper.Xor: "Xor"}
	frNames      = map[clipper.FillRule]string{clipper.EvenOdd: "EvenOdd", clipper.NonZero: "NonZero", clipper.Positive: "Positive", clipper.Negative: "Negative"}
)

func cfgName(ct clipper.ClipType, fr clipper.FillRule) string {
	return ctNames[ct] + "/" + frNames[fr]
}

// BoolSpace is a completely enumerated space of closed (subject, clip) inputs.
type BoolSpace struct {
	Name  string
	Level int
	Size  uint64
	E     enum.Embed
	// Gen writes case idx into the buffers of g and returns subject and clip
	// (clip == nil: no clip set).
	Gen func(idx uint64, g *genBuf) (Paths, Paths)
}

type genBuf struct {
	p [4]Path
	s Paths
	c Paths
}

func (g *genBuf) reset() {
	g.s = g.s[:0]
	g.c = g.c[:0]
}

// singlePath: B1 — one subject path in P(k,n), no clip.
func spSingle(e enum.Embed, k, n, level int) *BoolSpace {
	return &BoolSpace{Name: fmt.Sprintf("B1/P(%d,%d)/%s", k, n, e.Name), Level: level, Size: enum.PathCount(k, n), E: e,
		Gen: func(idx uint64, g *genBuf) (Paths, Paths) {
			g.reset()
			g.p[0] = enum.UnrankPath(idx, k, n, e, g.p[0])
			g.s = append(g.s, g.p[0])
			return g.s, nil
		}}
}

// pair: subject in P(k,ns), clip in P(k,nc).
func spPair(tag string, e enum.Embed, k, ns, nc, level int) *BoolSpace {
	cs := enum.PathCount(k, ns)
	return &BoolSpace{Name: fmt.Sprintf("%s/P(%d,%d)xP(%d,%d)/%s", tag, k, ns, k, nc, e.Name), Level: level, Size: cs * enum.PathCount(k, nc), E: e,
		Gen: func(idx uint64, g *genBuf) (Paths, Paths) {
			g.reset()
			g.p[0] = enum.UnrankPath(idx%cs, k, ns, e, g.p[0])
			g.p[1] = enum.UnrankPath(idx/cs, k, nc, e, g.p[1])
			g.s = append(g.s, g.p[0])
			g.c = append(g.c, g.p[1])
			return g.s, g.c
		}}
}

// twoSubjects: B6 — two subject paths in P(k,n)^2, no clip.
func spTwo(e enum.Embed, k, n, level int) *BoolSpace {
	cs := enum.PathCount(k, n)
	return &BoolSpace{Name: fmt.Sprintf("B6/P(%d,%d)^2/%s", k, n, e.Name), Level: level, Size: cs * cs, E: e,
		Gen: func(idx uint64, g *genBuf) (Paths, Paths) {
			g.reset()
			g.p[0] = enum.UnrankPath(idx%cs, k, n, e, g.p[0])
			g.p[1] = enum.UnrankPath(idx/cs, k, n, e, g.p[1])
			g.s = append(g.s, g.p[0], g.p[1])
			return g.s, nil
		}}
}

// rectangle / triangle shape families over L(k) for B7 and nesting scopes.
type shapeFam struct {
	shapes []Path // lattice coordinates
}

func latticeRects(k int, bothOrient bool) []Path {
	var out []Path
	for x0 := 0; x0 < k; x0++ {
		for x1 := x0 + 1; x1 < k; x1++ {
			for y0 := 0; y0 < k; y0++ {
				for y1 := y0 + 1; y1 < k; y1++ {
					a, b, c, d := Pt{X: int64(x0), Y: int64(y0)}, Pt{X: int64(x1), Y: int64(y0)}, Pt{X: int64(x1), Y: int64(y1)}, Pt{X: int64(x0), Y: int64(y1)}
					out = append(out, Path{a, b, c, d})
					if bothOrient {
						out = append(out, Path{d, c, b, a})
					}
				}
			}
		}
	}
	return out
}

func latticeRightTriangles(k int) []Path {
	var out []Path
	for _, r := range latticeRects(k, false) {
		out = append(out, Path{r[0], r[1], r[3]}, Path{r[3], r[1], r[0]})
	}
	return out
}

func embedPath(e enum.Embed, p Path, buf Path) Path {
	buf = buf[:0]
	for _, q := range p {
		buf = append(buf, e.F(q.X, q.Y))
	}
	return buf
}

// spShapes: B7 — subject = (rect, rect-or-right-triangle), clip = one rectangle, all over L(k).
func spShapes(e enum.Embed, k, level int) *BoolSpace {
	r2 := latticeRects(k, true)
	second := append(append([]Path{}, r2...), latticeRightTriangles(k)...)
	r1 := latticeRects(k, false)
	n1, n2, n3 := uint64(len(r2)), uint64(len(second)), uint64(len(r1))
	return &BoolSpace{Name: fmt.Sprintf("B7/shapes(L%d)/%s", k, e.Name), Level: level, Size: n1 * n2 * n3, E: e,
		Gen: func(idx uint64, g *genBuf) (Paths, Paths) {
			g.reset()
			i1 := idx % n1
			i2 := (idx / n1) % n2
			i3 := idx / (n1 * n2)
			g.p[0] = embedPath(e, r2[i1], g.p[0])
			g.p[1] = embedPath(e, second[i2], g.p[1])
			g.p[2] = embedPath(e, r1[i3], g.p[2])
			g.s = append(g.s, g.p[0], g.p[1])
			g.c = append(g.c, g.p[2])
			return g.s, g.c
		}}
}

// spThree: B8 - two subject triangles and one clip triangle, each every stride-th member of P(3,3):
// three mutually interacting paths (winding two deep, coincident edges of different paths).
func spThree(e enum.Embed, stride uint64, level int) *BoolSpace {
	return spThreeRoles(e, stride, 2, level)
}

// spThreeRoles: the same three triangles with nSubj of them as subject paths (3: no clip, 1: two clip paths).
func spThreeRoles(e enum.Embed, stride uint64, nSubj, level int) *BoolSpace {
	n := (enum.PathCount(3, 3) + stride - 1) / stride
	name := fmt.Sprintf("B8/(every %d-th of P(3,3))^2 x every %d-th of P(3,3)/%s", stride, stride, e.Name)
	if nSubj != 2 {
		name = fmt.Sprintf("B8/%d subject + %d clip triangles, every %d-th of P(3,3) each/%s", nSubj, 3-nSubj, stride, e.Name)
	}
	return &BoolSpace{Name: name, Level: level, Size: n * n * n, E: e,
		Gen: func(idx uint64, g *genBuf) (Paths, Paths) {
			g.reset()
			g.p[0] = enum.UnrankPath(idx%n*stride, 3, 3, e, g.p[0])
			g.p[1] = enum.UnrankPath((idx/n)%n*stride, 3, 3, e, g.p[1])
			g.p[2] = enum.UnrankPath(idx/(n*n)*stride, 3, 3, e, g.p[2])
			for i := 0; i < 3; i++ {
				if i < nSubj {
					g.s = append(g.s, g.p[i])
				} else {
					g.c = append(g.c, g.p[i])
				}
			}
			if nSubj == 3 {
				return g.s, nil
			}
			return g.s, g.c
		}}
}

// spNudged: B1n - a lattice triangle a,b,c closed through a fourth vertex one unit away from a (8 directions):
// a one-unit closing edge, so the two long edges meeting there cross each other (or not) within a unit of a and
// rounded crossing points fall onto existing vertices.
func spNudged(e enum.Embed, level int) *BoolSpace {
	cnt := enum.PathCount(3, 3)
	dirs := [8][2]int64{{1, 0}, {1, 1}, {0, 1}, {-1, 1}, {-1, 0}, {-1, -1}, {0, -1}, {1, -1}}
	return &BoolSpace{Name: fmt.Sprintf("B1n/P(3,3) closed through a vertex one unit from the first (8 directions)/%s", e.Name), Level: level, Size: cnt * 8, E: e,
		Gen: func(idx uint64, g *genBuf) (Paths, Paths) {
			g.reset()
			g.p[0] = enum.UnrankPath(idx%cnt, 3, 3, e, g.p[0])
			d := dirs[idx/cnt]
			g.p[0] = append(g.p[0], Pt{X: g.p[0][0].X + d[0], Y: g.p[0][0].Y + d[1]})
			g.s = append(g.s, g.p[0])
			return g.s, nil
		}}
}

// spPairStrided: B2 with every sS-th subject and every sC-th clip triangle (strides coprime to 9).
func spPairStrided(e enum.Embed, sS, sC uint64, level int) *BoolSpace {
	n := enum.PathCount(3, 3)
	nS, nC := (n+sS-1)/sS, (n+sC-1)/sC
	return &BoolSpace{Name: fmt.Sprintf("B2/every %d-th of P(3,3) x every %d-th of P(3,3)/%s", sS, sC, e.Name), Level: level, Size: nS * nC, E: e,
		Gen: func(idx uint64, g *genBuf) (Paths, Paths) {
			g.reset()
			g.p[0] = enum.UnrankPath(idx%nS*sS, 3, 3, e, g.p[0])
			g.p[1] = enum.UnrankPath(idx/nS*sC, 3, 3, e, g.p[1])
			g.s = append(g.s, g.p[0])
			g.c = append(g.c, g.p[1])
			return g.s, g.c
		}}
}

// spNoSubject: B0 - no subject at all (nil, empty set, set holding one empty path) and a clip path of P(3,n):
// "inside subject" is false everywhere, so Union and Xor return the clip region.
func spNoSubject(e enum.Embed, n, level int) *BoolSpace {
	cnt := enum.PathCount(3, n)
	return &BoolSpace{Name: fmt.Sprintf("B0/{nil, empty, one empty path} x P(3,%d)/%s", n, e.Name), Level: level, Size: 3 * cnt, E: e,
		Gen: func(idx uint64, g *genBuf) (Paths, Paths) {
			g.reset()
			g.p[0] = enum.UnrankPath(idx%cnt, 3, n, e, g.p[0])
			g.c = append(g.c, g.p[0])
			switch idx / cnt {
			case 0:
				return nil, g.c
			case 1:
				return Paths{}, g.c
			}
			return Paths{{}}, g.c
		}}
}

// spTwoLevel: B9 - a subject quadrilateral whose vertices lie on the two rows y=0 and y=60 and a clip triangle whose
// vertices lie on the rows y=-6 and y=66, x in {0,12,24,36,48}: long edges that cross each other pairwise inside ONE
// scanbeam (no vertex between the rows), bow-ties and zigzags included. Strides must be coprime to 10.
func spTwoLevel(strideS, strideC uint64, level int) *BoolSpace {
	nS := (10000 + strideS - 1) / strideS
	nC := (1000 + strideC - 1) / strideC
	vert := func(d uint64, lo, hi int64) Pt {
		p := Pt{X: int64(d%5) * 12, Y: lo}
		if d/5 == 1 {
			p.Y = hi
		}
		return p
	}
	return &BoolSpace{Name: fmt.Sprintf("B9/two-row quads (every %d-th) x two-row triangles (every %d-th), 5 columns", strideS, strideC), Level: level, Size: nS * nC, E: enum.Eunit,
		Gen: func(idx uint64, g *genBuf) (Paths, Paths) {
			g.reset()
			si, ci := idx%nS*strideS, idx/nS*strideC
			g.p[0], g.p[1] = g.p[0][:0], g.p[1][:0]
			for i := 0; i < 4; i++ {
				g.p[0] = append(g.p[0], vert(si%10, 0, 60))
				si /= 10
			}
			for i := 0; i < 3; i++ {
				g.p[1] = append(g.p[1], vert(ci%10, -6, 66))
				ci /= 10
			}
			g.s = append(g.s, g.p[0])
			g.c = append(g.c, g.p[1])
			return g.s, g.c
		}}
}

// boolSpaces returns the closed boolean scopes of a tier, smallest first
// (iterated bound). which selects families used by the different properties.
func boolSpaces(tier string) []*BoolSpace {
	var out []*BoolSpace
	region := []enum.Embed{enum.Eax, enum.Esh}
	if tier == "quick" {
		out = append(out, spNoSubject(enum.Eax, 3, 1), spNoSubject(enum.Eax, 4, 2), spNudged(enum.Eax, 2), spNudged(enum.Ean, 2), spNudged(enum.Esh, 2))
		for _, e := range region {
			out = append(out, spSingle(e, 3, 3, 1), spSingle(e, 3, 4, 2), spSingle(e, 3, 5, 3))
		}
		for _, e := range region {
			out = append(out, spPair("B2", e, 3, 3, 3, 4), spTwo(e, 3, 3, 4))
		}
		out = append(out, spSingle(enum.Eax, 3, 6, 4), spPair("B2", enum.Ean, 3, 3, 3, 4), spThree(enum.Eax, 10, 5), spThree(enum.Ean, 13, 5), spThree(enum.Esh, 13, 5), spTwoLevel(7, 3, 5),
			spThreeRoles(enum.Eax, 13, 1, 5), spThreeRoles(enum.Eax, 13, 3, 5), spThreeRoles(enum.Ean, 17, 1, 5), spThreeRoles(enum.Ean, 17, 3, 5),
			spSingle(enum.Eflat, 3, 3, 1), spSingle(enum.Eflat, 3, 4, 2), spPairStrided(enum.Eflat, 7, 7, 4), spThree(enum.Eflat, 37, 5))
		return out
	}
	all := []enum.Embed{enum.Eax, enum.Esh, enum.Ean, enum.Ebig}
	out = append(out, spNoSubject(enum.Eax, 3, 1), spNoSubject(enum.Eax, 4, 2), spNoSubject(enum.Esh, 5, 3), spNudged(enum.Eax, 2), spNudged(enum.Ean, 2), spNudged(enum.Esh, 2))
	for _, e := range all {
		out = append(out, spSingle(e, 3, 3, 1), spSingle(e, 3, 4, 2), spSingle(e, 3, 5, 3), spSingle(e, 3, 6, 4))
	}
	for _, e := range all {
		out = append(out, spPair("B2", e, 3, 3, 3, 4), spTwo(e, 3, 3, 4))
	}
	for _, e := range []enum.Embed{enum.Eax, enum.Esh, enum.Ean} {
		out = append(out, spPair("B3", e, 3, 4, 3, 5), spPair("B3", e, 3, 3, 4, 5))
	}
	for _, e := range []enum.Embed{enum.Eax, enum.Ean} {
		out = append(out, spPair("B4", e, 4, 3, 3, 6))
	}
	out = append(out, spThree(enum.Eax, 5, 6), spThree(enum.Esh, 7, 6), spThree(enum.Ean, 7, 6),
		spThreeRoles(enum.Eax, 7, 1, 6), spThreeRoles(enum.Eax, 7, 3, 6), spThreeRoles(enum.Ean, 10, 1, 6), spThreeRoles(enum.Ean, 10, 3, 6), spThreeRoles(enum.Esh, 10, 1, 6), spThreeRoles(enum.Esh, 10, 3, 6))
	out = append(out, spShapes(enum.Eax, 5, 6), spTwoLevel(3, 1, 6),
		spSingle(enum.Eflat, 3, 3, 1), spSingle(enum.Eflat, 3, 4, 2), spSingle(enum.Eflat, 3, 5, 3), spPairStrided(enum.Eflat, 2, 2, 4), spThree(enum.Eflat, 13, 5))
	return out
}

func showBool(sp *BoolSpace) func(idx uint64) any {
	return func(idx uint64) any {
		var g genBuf
		s, c := sp.Gen(idx, &g)
		return map[string]any{"subject": pathsLit(s), "clip": pathsLit(c), "embedding": sp.E.Name}
	}
}

func pathsLit(ps Paths) any {
	if ps == nil {
		return nil
	}
	out := make([][][2]int64, len(ps))
	for i, p := range ps {
		out[i] = make([][2]int64, len(p))
		for j, q := range p {
			out[i][j] = [2]int64{q.X, q.Y}
		}
	}
	return out
}

func pathLit(p Path) any {
	out := make([][2]int64, len(p))
	for j, q := range p {
		out[j] = [2]int64{q.X, q.Y}
	}
	return out
}

// spRects: B7-lite — subject = two rectangles (both orientations) over L(k), clip = one rectangle.
// Every edge is axis-aligned: horizontal-edge processing, horizontal joins, touching and nested rings.
func spRects(e enum.Embed, k, level int) *BoolSpace {
	r2 := latticeRects(k, true)
	r1 := latticeRects(k, false)
	n2, n1 := uint64(len(r2)), uint64(len(r1))
	return &BoolSpace{Name: fmt.Sprintf("B7r/rect^2 x rect(L%d)/%s", k, e.Name), Level: level, Size: n2 * n2 * n1, E: e,
		Gen: func(idx uint64, g *genBuf) (Paths, Paths) {
			g.reset()
			g.p[0] = embedPath(e, r2[idx%n2], g.p[0])
			g.p[1] = embedPath(e, r2[(idx/n2)%n2], g.p[1])
			g.p[2] = embedPath(e, r1[idx/(n2*n2)], g.p[2])
			g.s = append(g.s, g.p[0], g.p[1])
			g.c = append(g.c, g.p[2])
			return g.s, g.c
		}}
}
