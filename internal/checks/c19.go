package checks

import (
	"fmt"
	"math"
	"math/big"

	clipper "github.com/bolom009/go-clipper2"

	"verif/internal/drv"
	"verif/internal/enum"
	"verif/internal/oracle"
)

// edgeLenCeil returns an upper bound of the total edge length of closed paths.
func edgeLenCeil(sets ...Paths) int64 {
	var tot float64
	for _, ps := range sets {
		for _, p := range ps {
			n := len(p)
			for i := 0; i < n; i++ {
				a, b := p[i], p[(i+1)%n]
				tot += math.Hypot(float64(b.X-a.X), float64(b.Y-a.Y))
			}
		}
	}
	return int64(math.Ceil(tot*(1+1e-9))) + 1
}

type c19Sols struct {
	U, I, D1, D2, X, US, UC Paths
}

func c19Solve(S, C Paths, fr clipper.FillRule) c19Sols {
	var r c19Sols
	drv.Alive()
	r.U = clipper.BooleanOpPaths64(clipper.Union, S, C, fr)
	drv.Alive()
	r.I = clipper.BooleanOpPaths64(clipper.Intersection, S, C, fr)
	drv.Alive()
	r.D1 = clipper.BooleanOpPaths64(clipper.Difference, S, C, fr)
	drv.Alive()
	r.D2 = clipper.BooleanOpPaths64(clipper.Difference, C, S, fr)
	drv.Alive()
	r.X = clipper.BooleanOpPaths64(clipper.Xor, S, C, fr)
	drv.Alive()
	r.US = clipper.BooleanOpPaths64(clipper.Union, S, nil, fr)
	drv.Alive()
	r.UC = clipper.BooleanOpPaths64(clipper.Union, C, nil, fr)
	return r
}

// c19Areas checks the four area identities; bound in units of area: 2 * edge length.
func c19Areas(c *drv.Ctx, sub string, r *c19Sols, S, C Paths) {
	L := edgeLenCeil(S, C)
	bound2 := big.NewInt(4 * L) // identities are evaluated on twice-areas: 2 * (2*L)
	aU, aI, aD1, aD2, aX := oracle.Area2Paths(r.U), oracle.Area2Paths(r.I), oracle.Area2Paths(r.D1), oracle.Area2Paths(r.D2), oracle.Area2Paths(r.X)
	aS, aC := oracle.Area2Paths(r.US), oracle.Area2Paths(r.UC)
	chk := func(name string, plus []*big.Int, minus []*big.Int) {
		d := new(big.Int)
		for _, v := range plus {
			d.Add(d, v)
		}
		for _, v := range minus {
			d.Sub(d, v)
		}
		d.Abs(d)
		if d.Cmp(bound2) > 0 {
			c.Fail("area-identity", sub, "%s: %s violated: |discrepancy| = %s/2 > 2*edge length = %d (areas x2: U=%s I=%s D(S,C)=%s D(C,S)=%s X=%s S=%s C=%s)",
				sub, name, d, 2*L, aU, aI, aD1, aD2, aX, aS, aC)
		}
	}
	chk("area(U)+area(I) = area(S)+area(C)", []*big.Int{aU, aI}, []*big.Int{aS, aC})
	chk("area(X) = area(U)-area(I)", []*big.Int{aX, aI}, []*big.Int{aU})
	chk("area(D(S,C)) = area(S)-area(I)", []*big.Int{aD1, aI}, []*big.Int{aS})
	chk("area(D(S,C))+area(I)+area(D(C,S)) = area(U)", []*big.Int{aD1, aI, aD2}, []*big.Int{aU})
}

// c19Canonical evaluates the C02 oracle on one solution; areas are region
// areas only if it holds.
func c19Canonical(reg *oracle.Region, sol Paths) bool {
	if structuralDefect(sol) != "" {
		return false
	}
	if len(sol) == 0 {
		return true
	}
	reg.LoadSolution(sol)
	return reg.CheckWinding01(sol, 0, 1, 2) == nil
}

func c19Scope(sp *BoolSpace) *drv.Scope {
	var w boolWorker
	scale, step, margin := regionParams(sp.E, true)
	var wU, wI, wD1, wD2, wX, wS, wC []int16
	var on []bool
	return &drv.Scope{Name: sp.Name, Level: sp.Level, Size: sp.Size, Show: showBool(sp),
		Run: func(c *drv.Ctx, idx uint64) {
			S, C := sp.Gen(idx, &w.g)
			if C == nil {
				C = Paths{}
			}
			w.reg.SetInput(S, C, scale, step, margin)
			for _, fr := range allFillRules {
				r := c19Solve(S, C, fr)
				c.Exec(7)
				sub := frNames[fr]
				c.Output(enum.HashPaths(r.U) ^ enum.HashPaths(r.I)*3 ^ enum.HashPaths(r.X)*5 ^ enum.HashPaths(r.D1)*7 ^ enum.HashPaths(r.D2)*11)
				canon := true
				for _, s := range []Paths{r.U, r.I, r.D1, r.D2, r.X, r.US, r.UC} {
					if !c19Canonical(&w.reg, s) {
						canon = false
					}
				}
				if !canon {
					c.Count("skipped_because_C02_oracle_fails", 1)
					continue
				}
				c19Areas(c, sub, &r, S, C)
				if len(r.I) > 0 && len(r.D1) > 0 {
					c.Nontriv()
					c.Count("inputs_with_nonempty_I_and_D", 1)
				}
				// point-wise consistency among the library's own five solutions
				g := w.reg.G
				n := g.N()
				wU, wI, wD1, wD2, wX, wS, wC = fit16(wU, n), fit16(wI, n), fit16(wD1, n), fit16(wD2, n), fit16(wX, n), fit16(wS, n), fit16(wC, n)
				on = fitB(on, n)
				diff := make([]int32, n+1)
				for _, pr := range []struct {
					p Paths
					w []int16
				}{{r.U, wU}, {r.I, wI}, {r.D1, wD1}, {r.D2, wD2}, {r.X, wX}, {r.US, wS}, {r.UC, wC}} {
					g.Wind(pr.p, pr.w, on, diff)
				}
				for k := 0; k < n; k++ {
					if on[k] || w.reg.OnIn[k] {
						continue
					}
					u, i, d1, d2, x, s, cc := wU[k] != 0, wI[k] != 0, wD1[k] != 0, wD2[k] != 0, wX[k] != 0, wS[k] != 0, wC[k] != 0
					cnt := 0
					for _, b := range []bool{d1, i, d2} {
						if b {
							cnt++
						}
					}
					bad := ""
					switch {
					case u != (cnt == 1) || cnt > 1:
						bad = "D(S,C), I, D(C,S) are not a partition of U"
					case x != (u && !i):
						bad = "X != U minus I"
					case d1 != (s && !i):
						bad = "D(S,C) != S minus I"
					case u != (s || cc):
						bad = "U != S or C"
					case i != (s && cc):
						bad = "I != S and C"
					}
					if bad != "" {
						px, py := g.WX(k%g.NX), g.WY(k/g.NX)
						if g.FarFromEdges(px, py, 2, true, S, C) {
							c.Fail("set-identity", sub, "%s: %s at witness (%g,%g) [in U=%v I=%v D(S,C)=%v D(C,S)=%v X=%v S=%v C=%v]; U=%v I=%v D1=%v D2=%v X=%v",
								sub, bad, float64(px)/float64(g.S), float64(py)/float64(g.S), u, i, d1, d2, x, s, cc, r.U, r.I, r.D1, r.D2, r.X)
							break
						}
					}
				}
			}
			// UnionPaths64 of a single set equals the union with an empty clip
			if idx%16 == 0 {
				for _, fr := range allFillRules {
					a := clipper.UnionPaths64(S, fr)
					b := clipper.BooleanOpPaths64(clipper.Union, S, nil, fr)
					d := clipper.BooleanOpPaths64(clipper.Union, S, Paths{}, fr)
					c.Exec(3)
					if !enum.EqualPaths(a, b) || !enum.EqualPaths(a, d) {
						c.Fail("union-wrapper", frNames[fr], "UnionPaths64=%v, Union with nil clip=%v, with empty clip=%v", a, b, d)
					}
				}
				c.Count("union_wrapper_checked", 1)
			}
		}}
}

func fit16(b []int16, n int) []int16 {
	if cap(b) < n {
		return make([]int16, n)
	}
	b = b[:n]
	for i := range b {
		b[i] = 0
	}
	return b
}

func fitB(b []bool, n int) []bool {
	if cap(b) < n {
		return make([]bool, n)
	}
	b = b[:n]
	for i := range b {
		b[i] = false
	}
	return b
}

// ---- parametric large family --------------------------------------------------

func bigShape(kind, n int, cx, cy int64, r float64) Path {
	p := make(Path, 0, n)
	switch kind {
	case 0: // star: alternating radii
		for k := 0; k < n; k++ {
			rr := r
			if k&1 == 1 {
				rr = r * 0.45
			}
			a := 2 * math.Pi * float64(k) / float64(n)
			p = append(p, Pt{X: cx + int64(math.Round(rr*math.Cos(a))), Y: cy + int64(math.Round(rr*math.Sin(a)))})
		}
	case 1: // comb: n/4 teeth
		teeth := n / 4
		w := int64(2*r) / int64(teeth)
		if w < 4 {
			w = 4
		}
		x0, y0 := cx-int64(r), cy-int64(r)
		for t := 0; t < teeth; t++ {
			x := x0 + int64(t)*w
			p = append(p, Pt{X: x, Y: y0 + int64(r)}, Pt{X: x, Y: y0 + 2*int64(r)}, Pt{X: x + w/2, Y: y0 + 2*int64(r)}, Pt{X: x + w/2, Y: y0 + int64(r)})
		}
		p = append(p, Pt{X: x0 + int64(teeth)*w, Y: y0 + int64(r)}, Pt{X: x0 + int64(teeth)*w, Y: y0}, Pt{X: x0, Y: y0})
	case 2: // star polygon {n/k}: self-intersecting, winding up to k
		k := n/2 - 1
		if k%2 == 0 {
			k--
		}
		for gcd(k, n) != 1 {
			k -= 2
		}
		for j := 0; j < n; j++ {
			a := 2 * math.Pi * float64((j*k)%n) / float64(n)
			p = append(p, Pt{X: cx + int64(math.Round(r*math.Cos(a))), Y: cy + int64(math.Round(r*math.Sin(a)))})
		}
	case 3: // spiral band
		half := n / 2
		turns := 6.0
		for j := 0; j < half; j++ {
			t := float64(j) / float64(half-1)
			a := 2 * math.Pi * turns * t
			rr := r * (0.15 + 0.8*t)
			p = append(p, Pt{X: cx + int64(math.Round(rr*math.Cos(a))), Y: cy + int64(math.Round(rr*math.Sin(a)))})
		}
		for j := half - 1; j >= 0; j-- {
			t := float64(j) / float64(half-1)
			a := 2 * math.Pi * turns * t
			rr := r*(0.15+0.8*t) + r*0.05
			p = append(p, Pt{X: cx + int64(math.Round(rr*math.Cos(a))), Y: cy + int64(math.Round(rr*math.Sin(a)))})
		}
	default: // deterministic pseudo-random scribble (fixed linear congruence), heavily self-intersecting
		s := uint64(n)*2654435761 + 12345
		for j := 0; j < n; j++ {
			s = s*6364136223846793005 + 1442695040888963407
			x := int64((s>>33)%uint64(2*r)) - int64(r)
			s = s*6364136223846793005 + 1442695040888963407
			y := int64((s>>33)%uint64(2*r)) - int64(r)
			p = append(p, Pt{X: cx + x, Y: cy + y})
		}
	}
	return p
}

func gcd(a, b int) int {
	for b != 0 {
		a, b = b, a%b
	}
	if a < 0 {
		return -a
	}
	return a
}

var c19Ns = []int{64, 256, 1024, 2048}

func c19BigGen(ns []int, idx uint64) (Paths, Paths) {
	S, C, _ := c19BigGenD(ns, idx)
	return S, C
}

func c19BigGenD(ns []int, idx uint64) (Paths, Paths, string) {
	const R = 100000.0
	place := [][2]int64{{0, 0}, {30000, 10000}, {-70000, 50000}, {150000, 0}, {1, 1}}
	{
		ni := int(idx % uint64(len(ns)))
		idx /= uint64(len(ns))
		ks := int(idx % 5)
		idx /= 5
		kc := int(idx % 5)
		idx /= 5
		pl := place[idx%5]
		n := ns[ni]
		S := Paths{bigShape(ks, n, 0, 0, R)}
		C := Paths{bigShape(kc, n, pl[0], pl[1], R*0.8)}
		return S, C, fmt.Sprintf("N=%d subject-shape=%d clip-shape=%d clip-offset=%v", n, ks, kc, pl)
	}
}

func c19BigScope(ns []int) *drv.Scope {
	size := uint64(len(ns) * 5 * 5 * 5)
	gen := func(idx uint64) (Paths, Paths, string) { return c19BigGenD(ns, idx) }
	return &drv.Scope{Name: "large-family", Level: 7, Size: size, Chunk: 1,
		Show: func(idx uint64) any {
			_, _, d := gen(idx)
			return d + " (shapes: 0 star, 1 comb, 2 star polygon {n/k}, 3 spiral band, 4 LCG scribble; radius 1e5)"
		},
		Run: func(c *drv.Ctx, idx uint64) {
			S, C, _ := gen(idx)
			for _, fr := range allFillRules {
				r := c19Solve(S, C, fr)
				c.Exec(7)
				c.Output(enum.HashPaths(r.U) ^ enum.HashPaths(r.X)*5)
				bad := false
				for _, s := range []Paths{r.U, r.I, r.D1, r.D2, r.X, r.US, r.UC} {
					if structuralDefect(s) != "" {
						bad = true
					}
				}
				if bad {
					c.Count("skipped_because_C02_oracle_fails", 1)
					continue
				}
				c19Areas(c, frNames[fr], &r, S, C)
				if len(r.I) > 0 && len(r.D1) > 0 {
					c.Count("large_inputs_with_nonempty_I_and_D", 1)
				}
			}
			c.Nontriv()
		}}
}

func init() {
	drv.Register(&drv.Check{
		ID:    "C19",
		Title: "The four boolean operations are mutually consistent",
		Rule: "closed boolean scopes (as C01) x 4 fill rules; per input the seven solutions U, I, D(S,C), D(C,S), X, U(S), U(C); exact (math/big) shoelace areas of the solutions (used only when the C02 oracle holds for them) must satisfy the four area identities within 2 x total input edge length; " +
			"at every witness > 2 units from the input edges the library's own solutions must satisfy: {D(S,C), I, D(C,S)} partition U, X = U minus I, D(S,C) = S minus I, U = S or C, I = S and C; UnionPaths64(S) bit-identical to Union with nil and with empty clip. " +
			"plus a parametric large family (stars, combs, star polygons, spiral bands, LCG scribbles; N in {64,256,1024,2048}; 5x5 shape pairs x 5 placements) enumerated completely over its parameter grid (area identities only). non-trivial = input with non-empty intersection and difference",
		Assumptions:      []string{"small-scope hypothesis for the lattice scopes; the large family is a finite parameter grid, not all large inputs", "areas are region areas because the C02 oracle is evaluated on the same outputs (cases where it fails are counted and left to C02)"},
		RequiredCounters: []string{"inputs_with_nonempty_I_and_D", "union_wrapper_checked", "large_inputs_with_nonempty_I_and_D"},
		Scopes: func(tier string) []*drv.Scope {
			var out []*drv.Scope
			if tier == "quick" {
				for _, e := range []enum.Embed{enum.Eax, enum.Esh} {
					out = append(out, c19Scope(spSingle(e, 3, 3, 1)), c19Scope(spSingle(e, 3, 4, 2)), c19Scope(spSingle(e, 3, 5, 3)))
				}
				out = append(out, c19Scope(spPair("B2", enum.Eax, 3, 3, 3, 4)), c19Scope(spPair("B2", enum.Esh, 3, 3, 3, 4)), c19Scope(spRects(enum.Eax, 4, 5)), c19Scope(spThree(enum.Eax, 10, 5)), c19Scope(spTwoLevel(11, 7, 5)), c19Scope(spThree(enum.Ean, 17, 5)), c19Scope(spNudged(enum.Eax, 2)), c19Scope(spNudged(enum.Ean, 2)))
				out = append(out, c19BigScope(c19Ns[:2]))
				return out
			}
			for _, sp := range boolSpaces("thorough") {
				if sp.E.Big || sp.Level > 6 {
					continue
				}
				out = append(out, c19Scope(sp))
			}
			out = append(out, c19Scope(spRects(enum.Eax, 4, 5)), c19Scope(spRects(enum.Esh, 4, 5)))
			out = append(out, c19BigScope(c19Ns))
			return out
		},
	})
}
