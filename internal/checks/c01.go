package checks

import (
	clipper "github.com/bolom009/go-clipper2"

	"verif/internal/drv"
	"verif/internal/enum"
	"verif/internal/oracle"
)

// regionParams returns (scale, step, margin) of the witness lattice for an embedding.
func regionParams(e enum.Embed, coarse bool) (int64, int64, int64) {
	if e.Big {
		return 2, 1 << 25, 1 << 24 // scaled pitch 2^25 (= 2^24 units); vertices are even, witnesses odd
	}
	if coarse {
		return 4, 4, 3 // pitch 1
	}
	return 4, 2, 3 // pitch 1/2
}

type boolWorker struct {
	g   genBuf
	reg oracle.Region
}

// c01Scope turns a BoolSpace into a drv scope with the C01 oracle.
func c01Scope(sp *BoolSpace, coarse bool) *drv.Scope {
	var w boolWorker
	scale, step, margin := regionParams(sp.E, coarse)
	name := sp.Name
	if coarse {
		name += "/pitch1"
	}
	return &drv.Scope{Name: name, Level: sp.Level, Size: sp.Size, Show: showBool(sp),
		Run: func(c *drv.Ctx, idx uint64) {
			S, C := sp.Gen(idx, &w.g)
			w.reg.SetInput(S, C, scale, step, margin)
			nontriv := false
			for _, fr := range allFillRules {
				for _, ct := range allClipTypes {
					sol := clipper.BooleanOpPaths64(ct, S, C, fr)
					c.Exec(1)
					c.Output(enum.HashPaths(sol) + uint64(ct)*131 + uint64(fr)*17)
					w.reg.LoadSolution(sol)
					m, nt := w.reg.CheckBoolean(ct, fr, 2)
					if nt {
						nontriv = true
					}
					if m != nil {
						c.Fail("region", cfgName(ct, fr), "%s %s: %s; solution=%v", ctNames[ct], frNames[fr], m.String(), sol)
					}
				}
			}
			if nontriv {
				c.Nontriv()
				c.Count("inputs_with_nonempty_expected_and_solution", 1)
			}
			// every 64th input: wrappers, explicit engine and nil-vs-empty clip must be bit-identical
			if idx%64 == 0 {
				c01Wrappers(c, S, C)
			}
		}}
}

func c01Wrappers(c *drv.Ctx, S, C Paths) {
	for _, fr := range allFillRules {
		for _, ct := range allClipTypes {
			ref := clipper.BooleanOpPaths64(ct, S, C, fr)
			// explicit engine
			e := clipper.NewClipper64()
			e.AddPaths(S, clipper.Subject, false)
			if C != nil {
				e.AddPaths(C, clipper.Clip, false)
			}
			var sol Paths
			ok := e.Execute(ct, fr, &sol)
			c.Exec(1)
			if !ok {
				c.Fail("wrapper", cfgName(ct, fr), "Clipper64.Execute returned false")
			}
			if !enum.EqualPaths(ref, sol) {
				c.Fail("wrapper", cfgName(ct, fr), "Clipper64.Execute result %v differs from BooleanOpPaths64 %v", sol, ref)
			}
			var wr Paths
			switch ct {
			case clipper.Intersection:
				wr = clipper.IntersectWithClipPaths64(S, C, fr)
			case clipper.Union:
				wr = clipper.UnionWithClipPaths64(S, C, fr)
			case clipper.Difference:
				wr = clipper.DifferenceWithClipPaths64(S, C, fr)
			case clipper.Xor:
				wr = clipper.XorWithClipPaths64(S, C, fr)
			}
			c.Exec(1)
			if !enum.EqualPaths(ref, wr) {
				c.Fail("wrapper", cfgName(ct, fr), "convenience wrapper result %v differs from BooleanOpPaths64 %v", wr, ref)
			}
			if C == nil {
				em := clipper.BooleanOpPaths64(ct, S, Paths{}, fr)
				c.Exec(1)
				if !enum.EqualPaths(ref, em) {
					c.Fail("wrapper", cfgName(ct, fr), "empty non-nil clip result %v differs from nil clip %v", em, ref)
				}
				if ct == clipper.Union {
					u := clipper.UnionPaths64(S, fr)
					c.Exec(1)
					if !enum.EqualPaths(ref, u) {
						c.Fail("wrapper", cfgName(ct, fr), "UnionPaths64 result %v differs from BooleanOpPaths64(Union, S, nil) %v", u, ref)
					}
				}
			}
		}
	}
	c.Count("wrapper_equivalence_inputs", 1)
}

func init() {
	drv.Register(&drv.Check{
		ID:    "C01",
		Title: "Boolean operations return the set-theoretic region",
		Rule: "every closed (subject, clip) input of the listed scopes (all vertex sequences of P(k,n) on the k x k lattice under each embedding, incl. degenerate, self-intersecting, coincident) x 4 clip types x 4 fill rules through BooleanOpPaths64; " +
			"oracle: exact winding numbers on a witness lattice of pitch 1/2 (coordinates x4, witnesses odd), fill rule, boolean combination; violation = witness > 2 units (exact) from every input edge where reference and NonZero reading of the solution differ. " +
			"non-trivial = input for which, in at least one configuration, both the reference region and the solution are non-empty on the lattice",
		Assumptions: []string{
			"small-scope hypothesis: <= 6 vertices per path, <= 3 paths, lattice <= 5x5, five coordinate embeddings",
			"a wrong region thinner than the witness pitch (1/2 unit) and outside the 2-unit band can be missed; reported witnesses are exact counterexamples",
			"the reference winding/scan oracle (internal/oracle, ~200 lines, exact integer arithmetic) is trusted; it is calibrated against a per-point big-integer winding computation in the self-test",
		},
		RequiredCounters: []string{"inputs_with_nonempty_expected_and_solution", "wrapper_equivalence_inputs"},
		Scopes: func(tier string) []*drv.Scope {
			var out []*drv.Scope
			for _, sp := range boolSpaces(tier) {
				// quick: pitch 1 (every feature of the stride-10 embeddings is wider), thorough: pitch 1/2
				out = append(out, c01Scope(sp, tier == "quick"))
			}
			if tier == "quick" {
				out = append(out, c01Scope(spRects(enum.Eax, 4, 5), true))
				// the smallest scope in which a quad interacts with a triangle
				out = append(out, c01Scope(spPair("B3", enum.Eax, 3, 4, 3, 5), true))
				out = append(out, c01LargeScope(c19Ns[:2]))
			} else {
				out = append(out, c01LargeScope(c19Ns))
			}
			return out
		},
	})
}

// c01LargeScope checks the region oracle on the parametric large family of
// C19 (64..2048 vertices, radius 1e5) with a coarse witness lattice (pitch
// 401/4... units): the small-scope spaces cannot contain a defect that needs a
// feature thousands of units long and less than a unit wide.
func c01LargeScope(ns []int) *drv.Scope {
	big := c19BigScope(ns)
	var reg oracle.Region
	return &drv.Scope{Name: "large-family/region", Level: 7, Size: big.Size, Chunk: 1, Show: big.Show,
		Run: func(c *drv.Ctx, idx uint64) {
			S, C := c19BigGen(ns, idx)
			reg.SetInput(S, C, 4, 4*402, 3)
			nt := false
			for _, fr := range allFillRules {
				for _, ct := range allClipTypes {
					drv.Alive()
					sol := clipper.BooleanOpPaths64(ct, S, C, fr)
					c.Exec(1)
					c.Output(enum.HashPaths(sol))
					drv.Alive()
					reg.LoadSolution(sol)
					m, n := reg.CheckBoolean(ct, fr, 2)
					nt = nt || n
					if m != nil {
						c.Fail("region", cfgName(ct, fr), "%s %s: %s (solution has %d paths)", ctNames[ct], frNames[fr], m.String(), len(sol))
					}
				}
			}
			if nt {
				c.Nontriv()
				c.Count("large_inputs_with_nonempty_expected_and_solution", 1)
			}
		}}
}
