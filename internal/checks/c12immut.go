package checks

import (
	"fmt"

	clipper "github.com/bolom009/go-clipper2"

	"verif/internal/drv"
	"verif/internal/enum"
)

// c12ImmutScopes: every path-level library call on every path of an alphabet,
// with a deep comparison of the caller's slices before and after the call.
func c12ImmutScopes(tier string) []*drv.Scope {
	mk := func(pa *pathAlpha, level int) *drv.Scope {
		nP := pa.size()
		var pb Path
		return &drv.Scope{Name: fmt.Sprintf("immutability/P(%d,0..%d)/%s", pa.k, pa.maxN, pa.e.Name), Level: level, Size: nP,
			Show: func(idx uint64) any { return pathLit(pa.get(idx, nil)) },
			Run: func(c *drv.Ctx, idx uint64) {
				pb = pa.get(idx, pb)
				orig := enum.ClonePath(pb)
				other := Path{pa.e.F(0, 0), pa.e.F(2, 0), pa.e.F(2, 2), pa.e.F(1, 1), pa.e.F(0, 2)}
				otherOrig := enum.ClonePath(other)
				// each call gets a private copy with spare capacity, so that writes beyond len are seen too
				call := func(name string, f func(p Path, ps Paths)) {
					buf := make(Path, len(orig), len(orig)+3)
					copy(buf, orig)
					full := buf[:cap(buf)]
					for i := len(orig); i < len(full); i++ {
						full[i] = Pt{X: -777, Y: -777}
					}
					ps := Paths{buf, other}
					func() {
						defer func() {
							if r := recover(); r != nil {
								c.Fail("panic", name, "%s panicked on %v: %v", name, orig, r)
							}
						}()
						f(buf, ps)
					}()
					c.Exec(1)
					c.Count("calls_with_input_snapshot_compared", 1)
					bad := len(ps) != 2 || len(ps[0]) != len(orig) || !enum.EqualPath(other, otherOrig)
					if !bad {
						for i := range orig {
							if full[i] != orig[i] {
								bad = true
							}
						}
						for i := len(orig); i < len(full); i++ {
							if full[i] != (Pt{X: -777, Y: -777}) {
								bad = true
							}
						}
					}
					if bad {
						c.Fail("input-modified", name, "%s modified a caller-owned slice: before %v (other %v), after %v (backing array %v, other %v)", name, orig, otherOrig, ps, full, other)
						copy(other, otherOrig)
					}
				}
				for _, b := range []bool{false, true} {
					call(fmt.Sprintf("StripDuplicates(closed=%v)", b), func(p Path, ps Paths) { clipper.StripDuplicates(p, b) })
					call(fmt.Sprintf("TrimCollinear64(open=%v)", b), func(p Path, ps Paths) { clipper.TrimCollinear64(p, b) })
					call(fmt.Sprintf("SimplifyPath64(eps=1,closed=%v)", b), func(p Path, ps Paths) { clipper.SimplifyPath64(p, 1, b) })
					call(fmt.Sprintf("SimplifyPaths64(eps=0,closed=%v)", b), func(p Path, ps Paths) { clipper.SimplifyPaths64(ps, 0, b) })
					call(fmt.Sprintf("MinkowskiSum64(closed=%v)", b), func(p Path, ps Paths) {
						clipper.MinkowskiSum64(p, ps[1], b)
						clipper.MinkowskiDiff64(ps[1], p, b)
					})
				}
				call("ScalePath64/Translate/Offset/Reverse", func(p Path, ps Paths) {
					r := clipper.ScalePath64(p, 1)
					_ = r
					clipper.ScalePath64(p, 3)
					clipper.TranslatePath64(p, 1, 1)
					clipper.TranslatePaths64(ps, 1, 1)
					clipper.OffsetPath(p, 2, 2)
					clipper.ReversePath(p)
					clipper.Path64ToPathD(p)
					clipper.Paths64ToPathsD(ps)
				})
				call("measures", func(p Path, ps Paths) {
					clipper.Area64(p)
					clipper.AreaPaths64(ps)
					clipper.IsPositive64(p)
					clipper.GetBounds64(p)
					clipper.PointInPolygon(pa.e.F(1, 1), p)
					clipper.Path2ContainsPath1(p, ps[1])
				})
				for _, ct := range allClipTypes {
					call("BooleanOpPaths64/"+ctNames[ct], func(p Path, ps Paths) {
						clipper.BooleanOpPaths64(ct, ps, Paths{ps[1]}, clipper.NonZero)
						clipper.BooleanOpPaths64(ct, Paths{ps[1]}, Paths{p}, clipper.EvenOdd)
					})
				}
				call("BooleanOpPolyTree64", func(p Path, ps Paths) { clipper.BooleanOpPolyTree64(clipper.Union, ps, nil, clipper.Positive) })
				call("Clipper64 open+closed", func(p Path, ps Paths) {
					e := clipper.NewClipper64()
					e.AddPaths(Paths{p}, clipper.Subject, true)
					e.AddPaths(Paths{ps[1]}, clipper.Clip, false)
					var a, b Paths
					e.ExecuteOC(clipper.Intersection, clipper.NonZero, &a, &b)
					e.ExecuteOC(clipper.Difference, clipper.EvenOdd, &a, &b)
				})
				for et := clipper.EndType(0); et <= 4; et++ {
					for _, d := range []float64{0.3, 2, -2} {
						call(fmt.Sprintf("InflatePaths64(delta=%v, et=%d)", d, et), func(p Path, ps Paths) {
							clipper.InflatePaths64(ps, d, clipper.JoinType(int(et)%4), et)
						})
					}
				}
				call("ClipperOffset reuse", func(p Path, ps Paths) {
					co := clipper.NewClipperOffset(2, 0, false, false)
					co.AddPaths(ps, clipper.Round, clipper.Polygon)
					sol := Paths{p} // the caller's own slice offered as solution storage is replaced, not written through
					co.Execute64(0.2, &sol)
					co.Execute64(3, &sol)
				})
				rect := clipper.NewRect64(pa.e.F(0, 0).X, pa.e.F(0, 0).Y, pa.e.F(2, 2).X, pa.e.F(2, 2).Y)
				rect2 := clipper.NewRect64(pa.e.F(0, 0).X+1, pa.e.F(0, 0).Y+1, pa.e.F(2, 2).X-1, pa.e.F(1, 1).Y)
				call("RectClip", func(p Path, ps Paths) {
					clipper.RectClipPaths64(rect, ps)
					clipper.RectClipPaths64(rect2, ps)
					clipper.RectClipLinesPaths64(rect2, ps)
					clipper.RectClipPath64(rect2, p)
				})
				c.Nontriv()
			}}
	}
	if tier == "quick" {
		return []*drv.Scope{mk(newPathAlpha(3, 4, enum.Eunit), 1), mk(newPathAlpha(3, 4, enum.Eax), 1)}
	}
	return []*drv.Scope{mk(newPathAlpha(3, 5, enum.Eunit), 1), mk(newPathAlpha(3, 5, enum.Eax), 1), mk(newPathAlpha(4, 4, enum.Eunit), 2)}
}
