package checks

import (
	"fmt"
	"math"
	"math/big"

	clipper "github.com/bolom009/go-clipper2"

	"verif/internal/drv"
	"verif/internal/enum"
	"verif/internal/oracle"
)

// coordinate alphabet for exact-predicate checks: differences of 0, +-1, +-2,
// values beyond 2^26 (float32-ish mantissa), 2^29 limits.
var c14Alpha = []int64{0, 1, -1, 2, -2, 3, (1 << 26) + 1, -((1 << 26) + 1), 1 << 29, -(1 << 29), (1 << 29) - 1}

// difference alphabet for productsAreEqual
var c14Diff = []int64{0, 1, -1, 2, -2, 3, -3, (1 << 26) + 1, -((1 << 26) + 1), 1 << 29, -(1 << 29), (1 << 30), -(1 << 30), (1 << 30) - 1, -((1 << 30) - 1),
	// multiples of 2^32: products that agree in their low 64 bits and differ only in the high word
	1 << 32, -(1 << 32), 1 << 33, -(1 << 33), 3 << 32, -(3 << 32),
	// large operands with many significant bits in both halves, and their doubles (equal products exist:
	// 2u*v = u*2v), so every partial product of the 64x64 multiplication carries
	0x29ABCDEF1, -0x29ABCDEF1, 2 * 0x29ABCDEF1, 0x587654321, -0x587654321, 2 * 0x587654321, 0xFFFFFFFF, 0x1FFFFFFFF, 3 * 0x29ABCDEF1, 3 * 0xFFFFFFFF}

func alphaPt(i uint64) Pt {
	n := uint64(len(c14Alpha))
	return Pt{X: c14Alpha[i%n], Y: c14Alpha[(i/n)%n]}
}

// exact half-area as the nearest float64 (and its neighbours are accepted: <= 1 ulp)
func refAreaFloat(p Path) (float64, *big.Int) {
	a2 := oracle.Area2(p)
	f := new(big.Float).SetPrec(200).SetInt(a2)
	f.Quo(f, big.NewFloat(2))
	v, _ := f.Float64()
	return v, a2
}

func within1ulp(got, want float64) bool {
	if got == want {
		return true
	}
	return got == math.Nextafter(want, math.Inf(1)) || got == math.Nextafter(want, math.Inf(-1))
}

func c14Scopes(tier string) []*drv.Scope {
	var out []*drv.Scope
	nA := uint64(len(c14Alpha))
	nP := nA * nA
	// (a) collinearity over all point triples of the alphabet, direct and through TrimCollinear64
	out = append(out, &drv.Scope{Name: "collinear/A^2 triples", Level: 1, Size: nP * nP,
		Show: func(idx uint64) any {
			return map[string]any{"p1": alphaPt(idx % nP), "p2": alphaPt(idx / nP), "p3": "all " + fmt.Sprint(nP) + " alphabet points"}
		},
		Run: func(c *drv.Ctx, idx uint64) {
			p1, p2 := alphaPt(idx%nP), alphaPt(idx/nP)
			nt := false
			for k := uint64(0); k < nP; k++ {
				p3 := alphaPt(k)
				want := oracle.CrossSign(p1, p2, p3) == 0
				got := clipper.VerifIsCollinear(p1, p2, p3)
				c.Exec(1)
				if got != want {
					c.Fail("isCollinear", "", "isCollinear(%v,%v,%v)=%v but exact cross product zero=%v", p1, p2, p3, got, want)
				}
				// public route: a closed 3-point path trims to nothing iff the points are collinear
				tr := clipper.TrimCollinear64(Path{p1, p2, p3}, false)
				c.Exec(1)
				if (len(tr) == 0) != want {
					c.Fail("trim3", "", "TrimCollinear64(%v,%v,%v closed)=%v but exact collinear=%v", p1, p2, p3, tr, want)
				}
				if want && p1 != p2 && p2 != p3 {
					nt = true
				}
				c.Output(uint64(len(tr))*2 + b2u(got))
			}
			if nt {
				c.Nontriv()
				c.Count("collinear_distinct_triples_seen", 1)
			}
		}})
	// productsAreEqual over all quadruples of the difference alphabet
	nD := uint64(len(c14Diff))
	out = append(out, &drv.Scope{Name: "productsAreEqual/D^4", Level: 1, Size: nD * nD,
		Show: func(idx uint64) any {
			return map[string]any{"a": c14Diff[idx%nD], "b": c14Diff[idx/nD], "c,d": "all pairs of the difference alphabet"}
		},
		Run: func(c *drv.Ctx, idx uint64) {
			a, b := c14Diff[idx%nD], c14Diff[idx/nD]
			for _, cc := range c14Diff {
				for _, d := range c14Diff {
					var x, y big.Int
					x.Mul(big.NewInt(a), big.NewInt(b))
					y.Mul(big.NewInt(cc), big.NewInt(d))
					want := x.Cmp(&y) == 0
					got := clipper.VerifProductsAreEqual(a, b, cc, d)
					c.Exec(1)
					if got != want {
						c.Fail("productsAreEqual", "", "productsAreEqual(%d,%d,%d,%d)=%v, exact=%v", a, b, cc, d, got, want)
					}
				}
			}
			c.Nontriv()
		}})
	// (b) areas
	areaScope := func(name string, size uint64, level int, gen func(idx uint64, buf Path) Path) *drv.Scope {
		var buf Path
		return &drv.Scope{Name: name, Level: level, Size: size,
			Show: func(idx uint64) any { return pathLit(gen(idx, nil)) },
			Run: func(c *drv.Ctx, idx uint64) {
				buf = gen(idx, buf)
				want, a2 := refAreaFloat(buf)
				got := clipper.Area64(buf)
				c.Exec(1)
				if got != want {
					c.Fail("Area64", "", "Area64(%v)=%v, exact shoelace/2 rounded once to float64=%v", buf, got, want)
				}
				gp := clipper.AreaPaths64(Paths{buf, buf})
				c.Exec(1)
				if gp != want+want {
					c.Fail("AreaPaths64", "", "AreaPaths64({p,p})=%v, exact=%v", gp, 2*want)
				}
				pos := clipper.IsPositive64(buf)
				c.Exec(1)
				if pos != (a2.Sign() >= 0) {
					c.Fail("IsPositive64", "", "IsPositive64(%v)=%v but exact 2*area=%v", buf, pos, a2)
				}
				if a2.Sign() != 0 {
					c.Nontriv()
					c.Count("nonzero_area_paths", 1)
				}
				c.Output(math.Float64bits(got))
			}}
	}
	maxN := 5
	if tier == "thorough" {
		maxN = 6
	}
	for _, e := range []enum.Embed{enum.Eunit, enum.Ebig, enum.EbigSk, enum.EbigOdd} {
		for n := 3; n <= maxN; n++ {
			e, n := e, n
			out = append(out, areaScope(fmt.Sprintf("area/P(3,%d)/%s", n, e.Name), enum.PathCount(3, n), n-2,
				func(idx uint64, buf Path) Path { return enum.UnrankPath(idx, 3, n, e, buf) }))
		}
	}
	out = append(out, areaScope("area/3-point paths over A^2", nP*nP*nP, 2, func(idx uint64, buf Path) Path {
		return append(buf[:0], alphaPt(idx%nP), alphaPt((idx/nP)%nP), alphaPt(idx/(nP*nP)))
	}))
	// paths that go round a base polygon several times at full range: twice the area grows past 2^63 (and, at 8
	// turns of the full square, to 2^64) although every coordinate stays within +-2^29
	{
		const M = int64(1) << 29
		bases := []Path{
			{{X: -M, Y: -M}, {X: M, Y: -M}, {X: M, Y: M}, {X: -M, Y: M}},
			{{X: -M, Y: -M}, {X: M, Y: -M + 3}, {X: M - 1, Y: M}, {X: -M + 7, Y: M - 5}},
			{{X: -M, Y: -M}, {X: M, Y: -M}, {X: 0, Y: M}},
			{{X: 0, Y: 0}, {X: M, Y: 1}, {X: M - 1, Y: M}, {X: 2, Y: M - 3}},
		}
		out = append(out, areaScope("area/1..12 turns round 4 full-range polygons, both directions", uint64(len(bases))*12*2, 2, func(idx uint64, buf Path) Path {
			b := bases[idx%uint64(len(bases))]
			turns := int((idx/uint64(len(bases)))%12) + 1
			rev := idx/(uint64(len(bases))*12) == 1
			buf = buf[:0]
			for t := 0; t < turns; t++ {
				for i := range b {
					// the t-th turn is drawn one unit further in, so that no vertex repeats
					q := b[i]
					if q.X > 0 {
						q.X -= int64(t)
					} else if q.X < 0 {
						q.X += int64(t)
					}
					buf = append(buf, q)
				}
			}
			if rev {
				for i, j := 0, len(buf)-1; i < j; i, j = i+1, j-1 {
					buf[i], buf[j] = buf[j], buf[i]
				}
			}
			return buf
		}))
	}
	// (c) PointInPolygon
	pipScope := func(e enum.Embed, k, n, level int) *drv.Scope {
		var buf Path
		return &drv.Scope{Name: fmt.Sprintf("pip/P(%d,%d)x(L%d+1)/%s", k, n, k, e.Name), Level: level, Size: enum.PathCount(k, n),
			Show: func(idx uint64) any {
				return map[string]any{"polygon": pathLit(enum.UnrankPath(idx, k, n, e, nil)), "points": fmt.Sprintf("all lattice points -1..%d squared under %s", k, e.Name)}
			},
			Run: func(c *drv.Ctx, idx uint64) {
				buf = enum.UnrankPath(idx, k, n, e, buf)
				flat := true
				for _, q := range buf {
					if q.Y != buf[0].Y {
						flat = false
					}
				}
				if flat {
					return // excluded by the property: polygon contained in one horizontal line
				}
				sawIn, sawOn := false, false
				for y := int64(-1); y <= int64(k); y++ {
					for x := int64(-1); x <= int64(k); x++ {
						pt := e.F(x, y)
						want := oracle.PointInPolygonRef(pt, buf)
						got := int(clipper.PointInPolygon(pt, buf))
						c.Exec(1)
						if got != want {
							c.Fail("PointInPolygon", "", "PointInPolygon(%v, %v)=%s, exact=%s", pt, buf, pipName(got), pipName(want))
						}
						if want == 1 {
							sawIn = true
						}
						if want == 0 {
							sawOn = true
						}
					}
				}
				if sawIn {
					c.Nontriv()
					c.Count("polygons_with_lattice_point_inside", 1)
				}
				if sawOn {
					c.Count("polygons_with_lattice_point_on_boundary", 1)
				}
			}}
	}
	// triangles and points over a 7-value alphabet squared: near-diagonal edges of length 2^30 with points
	// one or two units off them (tiny non-zero cross products next to products beyond 2^53)
	a7 := []int64{0, 1, -1, 1 << 29, -(1 << 29), (1 << 29) - 1, (1 << 26) + 1}
	n7 := uint64(len(a7) * len(a7))
	pt7 := func(i uint64) Pt { return Pt{X: a7[i%uint64(len(a7))], Y: a7[i/uint64(len(a7))]} }
	out = append(out, &drv.Scope{Name: "pip/triangles over A7^2 x points of A7^2", Level: 3, Size: n7 * n7 * n7,
		Show: func(idx uint64) any {
			return map[string]any{"triangle": pathLit(Path{pt7(idx % n7), pt7((idx / n7) % n7), pt7(idx / (n7 * n7))}), "points": "all 49 points of the alphabet squared"}
		},
		Run: func(c *drv.Ctx, idx uint64) {
			tri := Path{pt7(idx % n7), pt7((idx / n7) % n7), pt7(idx / (n7 * n7))}
			if tri[0].Y == tri[1].Y && tri[1].Y == tri[2].Y {
				return
			}
			for k := uint64(0); k < n7; k++ {
				pt := pt7(k)
				want := oracle.PointInPolygonRef(pt, tri)
				got := int(clipper.PointInPolygon(pt, tri))
				c.Exec(1)
				if got != want {
					c.Fail("PointInPolygon", "", "PointInPolygon(%v, %v)=%s, exact=%s", pt, tri, pipName(got), pipName(want))
				}
			}
			c.Nontriv()
		}})
	pe := []enum.Embed{enum.Eunit, enum.Eax, {Name: "E_big27", Big: true, F: func(x, y int64) Pt { return Pt{X: (x - 1) << 27, Y: (y-1)<<27 + 3*x} }}}
	for _, e := range pe {
		out = append(out, pipScope(e, 4, 3, 1), pipScope(e, 4, 4, 2))
	}
	if tier == "thorough" {
		for _, e := range pe {
			out = append(out, pipScope(e, 4, 5, 3), pipScope(e, 3, 6, 3))
		}
	}
	// (d) bounds
	for _, e := range []enum.Embed{enum.Eunit, enum.Ebig, enum.EbigSk, {Name: "E_neg", F: func(x, y int64) Pt { return Pt{X: -x - 5, Y: 3 - 2*y} }}} {
		for n := 1; n <= 5; n++ {
			e, n := e, n
			var buf Path
			out = append(out, &drv.Scope{Name: fmt.Sprintf("bounds/P(3,%d)/%s", n, e.Name), Level: n, Size: enum.PathCount(3, n),
				Show: func(idx uint64) any { return pathLit(enum.UnrankPath(idx, 3, n, e, nil)) },
				Run: func(c *drv.Ctx, idx uint64) {
					buf = enum.UnrankPath(idx, 3, n, e, buf)
					r := clipper.GetBounds64(buf)
					c.Exec(1)
					minX, minY, maxX, maxY, _ := oracle.Bounds(Paths{buf})
					ap := r.AsPath()
					if ap[0].X != minX || ap[0].Y != minY || ap[2].X != maxX || ap[2].Y != maxY {
						c.Fail("GetBounds64", "", "GetBounds64(%v)=(l=%d t=%d r=%d b=%d), exact (%d %d %d %d)", buf, ap[0].X, ap[0].Y, ap[2].X, ap[2].Y, minX, minY, maxX, maxY)
					}
					if minX != maxX && minY != maxY {
						c.Nontriv()
					}
				}})
		}
	}
	return out
}

func pipName(v int) string { return [...]string{"IsOn", "IsInside", "IsOutside"}[v] }

func b2u(b bool) uint64 {
	if b {
		return 1
	}
	return 0
}

func init() {
	drv.Register(&drv.Check{
		ID:    "C14",
		Title: "Geometric measures and predicates are exact",
		Rule: "complete enumeration of: all point triples over an 11-value coordinate alphabet (0,+-1,+-2,3,+-(2^26+1),+-2^29,2^29-1) through isCollinear and through TrimCollinear64 on the closed 3-point path; all quadruples of a 31-value difference alphabet (0, +-1..3, +-(2^26+1), +-2^29, +-2^30, +-(2^30-1), +-2^32, +-2^33, +-3*2^32: these give products that differ only in the high 64-bit word; 0x29ABCDEF1, 0x587654321, their doubles and triples, 2^32-1, 2^33-1: every partial product of the 64x64 multiplication carries) through productsAreEqual; " +
			"Area64/AreaPaths64/IsPositive64 on P(3,3..6) under unit and 2^28 embeddings, on all 3-point paths over the alphabet and on paths going 1..12 times round four full-range (+-2^29) polygons in both directions (twice the area passes 2^63 and 2^64); PointInPolygon for every lattice point (-1..k)^2 against every polygon of P(4,3..5) and P(3,6) under unit/stride-10/2^28 embeddings; GetBounds64 on P(3,1..5). Oracle: math/big shoelace, exact cross products, exact on-segment + crossing parity. " +
			"non-trivial = triple base with a proper collinear triple / non-zero-area path / polygon with a lattice point strictly inside",
		Assumptions:      []string{"operand alphabet is finite; values between the listed magnitudes are not enumerated", "reference predicates use math/big or int64 products that provably fit"},
		RequiredCounters: []string{"collinear_distinct_triples_seen", "nonzero_area_paths", "polygons_with_lattice_point_inside", "polygons_with_lattice_point_on_boundary"},
		Scopes:           c14Scopes,
	})
}
