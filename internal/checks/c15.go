package checks

import (
	"fmt"

	clipper "github.com/bolom009/go-clipper2"

	"verif/internal/drv"
	"verif/internal/enum"
	"verif/internal/oracle"
)

// trimModel is the reference model of TrimCollinear64: the rewriting system
// "delete a vertex that is exactly collinear with its current neighbours"
// (cross product zero: duplicates and 180-degree spikes included). All states
// reachable from the full path are explored (<= 2^n masks); the implementation's
// answer must be the point sequence of a reachable state in which no further
// deletion is possible, or empty when a state with fewer than 3 vertices is
// reachable (closed paths).
type trimModel struct {
	n      int
	p      Path
	open   bool
	seen   []bool
	stack  []uint32
	states []uint32
}

func (m *trimModel) neighbours(mask uint32, i int) (int, int, bool) {
	n := m.n
	if m.open {
		pr, nx := -1, -1
		for j := i - 1; j >= 0; j-- {
			if mask&(1<<uint(j)) != 0 {
				pr = j
				break
			}
		}
		for j := i + 1; j < n; j++ {
			if mask&(1<<uint(j)) != 0 {
				nx = j
				break
			}
		}
		return pr, nx, pr >= 0 && nx >= 0
	}
	pr, nx := -1, -1
	for d := 1; d < n; d++ {
		j := (i - d + n) % n
		if mask&(1<<uint(j)) != 0 {
			pr = j
			break
		}
	}
	for d := 1; d < n; d++ {
		j := (i + d) % n
		if mask&(1<<uint(j)) != 0 {
			nx = j
			break
		}
	}
	return pr, nx, pr >= 0 && nx >= 0
}

func (m *trimModel) removable(mask uint32, i int) bool {
	pr, nx, ok := m.neighbours(mask, i)
	if !ok {
		return false
	}
	a, b, c := m.p[pr], m.p[i], m.p[nx]
	return cmpProd(b.X-a.X, c.Y-b.Y, b.Y-a.Y, c.X-b.X) == 0 // exact in 128 bits
}

func popcount(x uint32) int {
	c := 0
	for ; x != 0; x &= x - 1 {
		c++
	}
	return c
}

// explore fills m.states with every reachable mask.
func (m *trimModel) explore(p Path, open bool) {
	m.p, m.n, m.open = p, len(p), open
	sz := 1 << uint(m.n)
	if cap(m.seen) < sz {
		m.seen = make([]bool, sz)
	}
	m.seen = m.seen[:sz]
	for i := range m.seen {
		m.seen[i] = false
	}
	m.states = m.states[:0]
	full := uint32(sz - 1)
	m.stack = append(m.stack[:0], full)
	m.seen[full] = true
	for len(m.stack) > 0 {
		s := m.stack[len(m.stack)-1]
		m.stack = m.stack[:len(m.stack)-1]
		m.states = append(m.states, s)
		if !open && popcount(s) < 3 {
			continue
		}
		for i := 0; i < m.n; i++ {
			if s&(1<<uint(i)) == 0 || !m.removable(s, i) {
				continue
			}
			t := s &^ (1 << uint(i))
			if !m.seen[t] {
				m.seen[t] = true
				m.stack = append(m.stack, t)
			}
		}
	}
}

func (m *trimModel) terminal(mask uint32) bool {
	for i := 0; i < m.n; i++ {
		if mask&(1<<uint(i)) != 0 && m.removable(mask, i) {
			return false
		}
	}
	return true
}

func (m *trimModel) seq(mask uint32, buf Path) Path {
	buf = buf[:0]
	for i := 0; i < m.n; i++ {
		if mask&(1<<uint(i)) != 0 {
			buf = append(buf, m.p[i])
		}
	}
	return buf
}

func cyclicEqual(a, b Path) bool {
	if len(a) != len(b) {
		return false
	}
	n := len(a)
	if n == 0 {
		return true
	}
	for r := 0; r < n; r++ {
		ok := true
		for i := 0; i < n; i++ {
			if a[i] != b[(i+r)%n] {
				ok = false
				break
			}
		}
		if ok {
			return true
		}
	}
	return false
}

func c15Scope(e enum.Embed, k, n int, open bool, level int) *drv.Scope {
	var buf, sbuf Path
	var m trimModel
	kind := "closed"
	if open {
		kind = "open"
	}
	return &drv.Scope{Name: fmt.Sprintf("trim/%s/P(%d,%d)/%s", kind, k, n, e.Name), Level: level, Size: enum.PathCount(k, n),
		Show: func(idx uint64) any {
			return map[string]any{"path": pathLit(enum.UnrankPath(idx, k, n, e, nil)), "isOpen": open}
		},
		Run: func(c *drv.Ctx, idx uint64) {
			buf = enum.UnrankPath(idx, k, n, e, buf)
			in := enum.ClonePath(buf)
			got := clipper.TrimCollinear64(buf, open)
			c.Exec(1)
			c.Output(enum.HashPaths(Paths{got}))
			if !enum.EqualPath(in, buf) {
				c.Fail("input-modified", "", "TrimCollinear64 modified its input %v -> %v", in, buf)
			}
			m.explore(in, open)
			matched := false
			small := false
			for _, s := range m.states {
				pc := popcount(s)
				if !open && pc < 3 {
					small = true
					continue
				}
				// closed paths: the property demands a state with no removable vertex left;
				// open paths: only that nothing but exactly-collinear vertices was removed
				if pc != len(got) || (!open && !m.terminal(s)) {
					continue
				}
				sbuf = m.seq(s, sbuf)
				if open && enum.EqualPath(sbuf, got) || !open && cyclicEqual(sbuf, got) {
					matched = true
					break
				}
			}
			if len(got) == 0 {
				if open {
					c.Fail("open-empty", "", "TrimCollinear64(%v, open) returned an empty path: end points must be kept", in)
				} else if !small {
					c.Fail("wrongly-empty", "", "TrimCollinear64(%v, closed) returned empty but no sequence of exact-collinear removals leaves fewer than 3 vertices", in)
				}
			} else if !matched {
				c.Fail("not-a-trim", "", "TrimCollinear64(%v, open=%v)=%v is not the result of removing only vertices exactly collinear with their current neighbours until none is left", in, open, got)
			}
			if !open {
				// independent restatement: exact area unchanged
				if oracle.Area2(in).Cmp(oracle.Area2(got)) != 0 {
					c.Fail("area", "", "TrimCollinear64(%v, closed)=%v changed twice-area %v -> %v", in, got, oracle.Area2(in), oracle.Area2(got))
				}
			} else if len(got) > 0 && (got[0] != in[0] || got[len(got)-1] != in[len(in)-1]) {
				c.Fail("open-ends", "", "TrimCollinear64(%v, open)=%v dropped an end point", in, got)
			}
			// idempotence
			again := clipper.TrimCollinear64(enum.ClonePath(got), open)
			c.Exec(1)
			if !enum.EqualPath(again, got) && !(len(again) == 0 && len(got) == 0) {
				c.Fail("idempotence", "", "Trim(Trim(%v))=%v differs from Trim=%v (open=%v)", in, again, got, open)
			}
			if len(got) > 0 && len(got) < len(in) {
				c.Nontriv()
				c.Count("paths_partially_trimmed", 1)
			}
			if len(got) == 0 {
				c.Count("paths_trimmed_to_empty", 1)
			}
		}}
}

// multiples of 2^32 and 2^33: cross products of real corners differ only in the high 64-bit word
// odd multipliers near 2^33 / 2^34 with large low halves: every partial product of the 128-bit multiplication carries
var c15E33 = enum.Embed{Name: "E_2^33odd", Big: true, F: func(x, y int64) Pt { return Pt{X: (x - 1) * 0x29ABCDEF1, Y: (y - 1) * 0xFFFFFFFF} }}

var c15E32 = enum.Embed{Name: "E_2^32", Big: true, F: func(x, y int64) Pt { return Pt{X: (x - 1) << 32, Y: (y - 1) << 33} }}

func init() {
	drv.Register(&drv.Check{
		ID:    "C15",
		Title: "TrimCollinear64 removes exactly the redundant vertices",
		Rule: "all closed and open paths of P(3,3..7), P(4,3..5) under the unit embedding (differences of exactly 0/+-1, spikes, duplicates, collinear runs across index 0), P(3,3..6) stride 10, P(3,3..5) at 2^28; reference model = explicit-state exploration of the rewriting system 'delete a vertex exactly collinear with its current neighbours' (all <= 2^n reachable vertex subsets); " +
			"the implementation's answer must be the point sequence of a reachable terminal state (cyclically for closed paths) or empty when fewer than 3 vertices can remain; plus exact area equality, end points kept, idempotence, input unchanged. non-trivial = path from which some but not all vertices were removed",
		Assumptions:      []string{"<= 7 vertices; four embeddings"},
		RequiredCounters: []string{"paths_partially_trimmed", "paths_trimmed_to_empty"},
		Scopes: func(tier string) []*drv.Scope {
			var out []*drv.Scope
			maxU := 6
			if tier == "thorough" {
				maxU = 7
			}
			for _, open := range []bool{false, true} {
				for n := 3; n <= maxU; n++ {
					out = append(out, c15Scope(enum.Eunit, 3, n, open, n-2))
				}
				for n := 3; n <= 5; n++ {
					if n == 5 && tier != "thorough" {
						continue
					}
					out = append(out, c15Scope(enum.Eunit, 4, n, open, n-1))
				}
				for n := 3; n <= 5; n++ {
					out = append(out, c15Scope(enum.Eax, 3, n, open, n-2))
					out = append(out, c15Scope(enum.Ebig, 3, n, open, n-2))
					out = append(out, c15Scope(enum.EbigOdd, 3, n, open, n-2))
					out = append(out, c15Scope(c15E32, 3, n, open, n-2))
					if n <= 4 {
						// steps of one and of three lattice units on the same line need L(5)
						out = append(out, c15Scope(c15E33, 5, n, open, n-1))
					}
				}
				if tier == "thorough" {
					out = append(out, c15Scope(enum.Eax, 3, 6, open, 4))
				}
			}
			return out
		},
	})
}
