package checks

import (
	"encoding/json"
	"fmt"
	"os"
	"path/filepath"
	"sort"

	clipper "github.com/bolom009/go-clipper2"

	"verif/internal/drv"
	"verif/internal/enum"
	"verif/internal/oracle"
)

type c04Node struct {
	poly   Path
	parent int // -1 = root
	hole   bool
	level  int
	in     []bool // witness strictly inside (winding != 0)
	on     []bool
	area2  int64
}

func flattenTree(root *clipper.PolyPathBase) []c04Node {
	var out []c04Node
	var rec func(n *clipper.PolyPathBase, parent int)
	rec = func(n *clipper.PolyPathBase, parent int) {
		for _, ch := range n.GetChildren() {
			out = append(out, c04Node{poly: ch.Polygon(), parent: parent, hole: ch.IsHole(), level: ch.Level()})
			rec(ch, len(out)-1)
		}
	}
	rec(root, -1)
	return out
}

type c04Worker struct {
	g    genBuf
	diff []int32
	w    []int16
}

// contains decides "Q lies inside O" on the witness lattice: 1 yes, 0 no (with
// the refuting witness index), -1 undetermined (no witness of Q is farther than
// 2 units from the edges of both).
func c04Contains(g *oracle.Grid, O, Q *c04Node) (int, int) {
	if abs64(Q.area2) > abs64(O.area2) {
		// exact: a polygon does not lie inside one of smaller area (a ring narrower than the 2-unit margin
		// has no refuting witness)
		return 0, -1
	}
	found := false
	for k := range Q.in {
		if !Q.in[k] || Q.on[k] || O.on[k] {
			continue
		}
		px, py := g.WX(k%g.NX), g.WY(k/g.NX)
		if !O.in[k] {
			if g.FarFromEdges(px, py, 2, true, Paths{Q.poly}, Paths{O.poly}) {
				return 0, k
			}
			continue
		}
		if !found && g.FarFromEdges(px, py, 2, true, Paths{Q.poly}, Paths{O.poly}) {
			found = true
		}
	}
	if found {
		return 1, -1
	}
	return -1, -1
}

func c04CheckTree(c *drv.Ctx, w *c04Worker, tag string, S, C Paths, tree *clipper.PolyPathBase, flat Paths, scale, step, margin int64) int {
	nodes := flattenTree(tree)
	// (1) same polygons as the flat result, each exactly once
	var a, b []string
	for i := range nodes {
		a = append(a, canonPaths(Paths{nodes[i].poly}))
	}
	for _, p := range flat {
		b = append(b, canonPaths(Paths{p}))
	}
	sort.Strings(a)
	sort.Strings(b)
	if fmt.Sprint(a) != fmt.Sprint(b) {
		c.Fail("tree-vs-flat", tag, "%s: tree polygons %v differ from the flat result %v (as multisets); subject %v clip %v", tag, a, b, S, C)
		return len(nodes)
	}
	if len(nodes) == 0 {
		return 0
	}
	// (3) IsHole <=> negative orientation; levels alternate
	for i := range nodes {
		n := &nodes[i]
		n.area2 = oracle.Area2Small(n.poly)
		if n.area2 != 0 && n.hole != (n.area2 < 0) {
			c.Fail("hole-flag", tag, "%s: node %v at level %d reports IsHole()=%v but its signed area x2 is %d; subject %v clip %v", tag, n.poly, n.level, n.hole, n.area2, S, C)
			return len(nodes)
		}
		if n.parent >= 0 && nodes[n.parent].hole == n.hole {
			c.Fail("levels", tag, "%s: node %v and its parent %v are both hole=%v; subject %v clip %v", tag, n.poly, nodes[n.parent].poly, n.hole, S, C)
			return len(nodes)
		}
	}
	if len(nodes) < 2 {
		return 1
	}
	// witness lattice
	minX, minY, maxX, maxY, _ := oracle.Bounds(S, C, flat)
	g := oracle.NewGrid(minX, minY, maxX, maxY, margin, scale, step)
	N := g.N()
	if cap(w.diff) < N+1 {
		w.diff = make([]int32, N+1)
	}
	w.diff = w.diff[:N+1]
	for i := range nodes {
		w.w = fit16(w.w, N)
		nodes[i].on = make([]bool, N)
		nodes[i].in = make([]bool, N)
		g.Wind(Paths{nodes[i].poly}, w.w, nodes[i].on, w.diff)
		for k := 0; k < N; k++ {
			nodes[i].in[k] = w.w[k] != 0
		}
	}
	pt := func(k int) string {
		if k < 0 {
			return "(none: the node's area exceeds the other polygon's)"
		}
		return fmt.Sprintf("(%g,%g)", float64(g.WX(k%g.NX))/float64(g.S), float64(g.WY(k/g.NX))/float64(g.S))
	}
	for i := range nodes {
		q := &nodes[i]
		// (2) inside its parent
		if q.parent >= 0 {
			if r, k := c04Contains(g, &nodes[q.parent], q); r == 0 {
				c.Fail("child-outside-parent", tag, "%s: node %v is not inside its parent %v: witness %s is inside the node only (> 2 units from both boundaries); subject %v clip %v", tag, q.poly, nodes[q.parent].poly, pt(k), S, C)
				return len(nodes)
			}
		}
		// (2) inside no sibling
		for j := range nodes {
			if j == i || nodes[j].parent != q.parent {
				continue
			}
			for k := 0; k < N; k++ {
				if q.in[k] && nodes[j].in[k] && !q.on[k] && !nodes[j].on[k] &&
					g.FarFromEdges(g.WX(k%g.NX), g.WY(k/g.NX), 2, true, Paths{q.poly}, Paths{nodes[j].poly}) {
					c.Fail("sibling-overlap", tag, "%s: siblings %v and %v overlap at witness %s; subject %v clip %v", tag, q.poly, nodes[j].poly, pt(k), S, C)
					return len(nodes)
				}
			}
		}
		// (4) the parent is the innermost container: no other node O with Q inside O inside parent(Q)
		for j := range nodes {
			if j == i || j == q.parent {
				continue
			}
			o := &nodes[j]
			if r, _ := c04Contains(g, o, q); r != 1 {
				continue
			}
			// o contains q; a correct tree has o as an ancestor of q
			anc := false
			for p := q.parent; p >= 0; p = nodes[p].parent {
				if p == j {
					anc = true
				}
			}
			if !anc {
				c.Fail("not-innermost-parent", tag, "%s: node %v lies inside %v, which is not among its ancestors (parent: %v); subject %v clip %v", tag, q.poly, o.poly, parentPoly(nodes, q.parent), S, C)
				return len(nodes)
			}
			// and an ancestor other than the parent must contain the parent too (else the parent is not in between)
		}
		// the direct parent must be the smallest ancestor: no ancestor strictly inside the parent
		if q.parent >= 0 {
			for p := nodes[q.parent].parent; p >= 0; p = nodes[p].parent {
				if abs64(nodes[p].area2) < abs64(nodes[q.parent].area2) {
					c.Fail("ancestor-order", tag, "%s: ancestor %v of node %v is smaller than its parent %v; subject %v clip %v", tag, nodes[p].poly, q.poly, nodes[q.parent].poly, S, C)
					return len(nodes)
				}
			}
		}
	}
	return len(nodes)
}

func abs64(v int64) int64 {
	if v < 0 {
		return -v
	}
	return v
}

func parentPoly(nodes []c04Node, p int) any {
	if p < 0 {
		return "root"
	}
	return nodes[p].poly
}

func c04Scope(sp *BoolSpace, cts []clipper.ClipType) *drv.Scope {
	var w c04Worker
	scale, step, margin := regionParams(sp.E, true)
	return &drv.Scope{Name: "tree/" + sp.Name, Level: sp.Level, Size: sp.Size, Show: showBool(sp),
		Run: func(c *drv.Ctx, idx uint64) {
			S, C := sp.Gen(idx, &w.g)
			deep := false
			for _, fr := range allFillRules {
				for _, ct := range cts {
					tree := clipper.BooleanOpPolyTree64(ct, S, C, fr)
					flat := clipper.BooleanOpPaths64(ct, S, C, fr)
					c.Exec(2)
					c.Output(enum.HashPaths(flat))
					n := c04CheckTree(c, &w, cfgName(ct, fr), S, C, tree.PolyPathBase, flat, scale, step, margin)
					if n >= 2 {
						deep = true
					}
					if n >= 2 && idx%16 == 0 {
						// the D tree of the same integer input at precision 0 has the same shape and polygons
						td := clipper.BooleanOpPolyTreeD(ct, clipper.Paths64ToPathsD(S), pathsDOrNil(C), fr, 0)
						c.Exec(1)
						if a, b := canonTree(td.PolyPathBase), canonTree(tree.PolyPathBase); a != b {
							c.Fail("D-tree", cfgName(ct, fr), "%s: BooleanOpPolyTreeD (precision 0) gives %s, the 64-bit tree is %s; subject %v clip %v", cfgName(ct, fr), a, b, S, C)
						}
					}
				}
			}
			if deep {
				c.Nontriv()
				c.Count("inputs_with_a_tree_of_two_or_more_nodes", 1)
			}
		}}
}

func pathsDOrNil(ps Paths) clipper.PathsD {
	if ps == nil {
		return nil
	}
	return clipper.Paths64ToPathsD(ps)
}

// spNest: nesting family - a fixed frame plus three axis-aligned rectangles over L(k) as subject paths
// (islands in holes in islands under EvenOdd; touching and shared-edge cases included), optional clip = last rectangle.
func spNest(e enum.Embed, k int, bothOrient bool, level int) *BoolSpace {
	rs := latticeRects(k, bothOrient)
	n := uint64(len(rs))
	frame := Path{{X: -1, Y: -1}, {X: int64(k), Y: -1}, {X: int64(k), Y: int64(k)}, {X: -1, Y: int64(k)}}
	return &BoolSpace{Name: fmt.Sprintf("N/frame+rect^3(L%d,%v)/%s", k, bothOrient, e.Name), Level: level, Size: n * n * n, E: e,
		Gen: func(idx uint64, g *genBuf) (Paths, Paths) {
			g.reset()
			g.p[0] = embedPath(e, frame, g.p[0])
			g.p[1] = embedPath(e, rs[idx%n], g.p[1])
			g.p[2] = embedPath(e, rs[(idx/n)%n], g.p[2])
			g.p[3] = embedPath(e, rs[idx/(n*n)], g.p[3])
			g.s = append(g.s, g.p[0], g.p[1], g.p[2])
			g.c = append(g.c, g.p[3])
			return g.s, g.c
		}}
}

// spBars: a fixed menu of 17 axis-aligned pieces - three horizontal bars, six vertical bar segments that only
// TOUCH the bars (so a ring and its hole exist only once touching horizontal edges have been joined), an island in
// each of the four cells of that grid and a reversed square inside each island - and every assignment of
// {absent, subject[, clip]} to the pieces. Level counts the deepest possible nesting (outer, hole, island, hole).
var barsMenu = func() []Path {
	rect := func(x0, y0, x1, y1 int64, rev bool) Path {
		p := Path{{X: x0, Y: y0}, {X: x1, Y: y0}, {X: x1, Y: y1}, {X: x0, Y: y1}}
		if rev {
			p[1], p[3] = p[3], p[1]
		}
		return p
	}
	var m []Path
	for _, y := range []int64{0, 30, 60} {
		m = append(m, rect(0, y, 70, y+10, false))
	}
	for _, x := range []int64{0, 30, 60} {
		m = append(m, rect(x, 10, x+10, 30, false), rect(x, 40, x+10, 60, false))
	}
	for _, cy := range []int64{10, 40} {
		for _, cx := range []int64{10, 40} {
			m = append(m, rect(cx+4, cy+4, cx+16, cy+16, false))
		}
	}
	// inner squares: the two diagonal cells first, so that the first 15 pieces already nest four deep
	for _, c := range [][2]int64{{10, 10}, {40, 40}, {40, 10}, {10, 40}} {
		m = append(m, rect(c[0]+7, c[1]+7, c[0]+13, c[1]+13, true))
	}
	return m
}()

// spBitmap: a k x k field of touching unit cells (10 x 10 each, every cell its own square path) with every
// assignment of {absent, subject[, clip]} to the cells, optionally on top of the 2 x 2 field of blocks twice that
// size (same choices): every join is a horizontal or vertical edge-to-edge or corner-to-corner contact, so rings,
// holes and islands only come into existence through join and split bookkeeping. stride must be coprime to base.
func spBitmap(k int, blocks bool, withClip bool, stride uint64, level int) *BoolSpace {
	base := uint64(2)
	if withClip {
		base = 3
	}
	var menu []Path
	sq := func(x, y, s int64) Path {
		return Path{{X: x, Y: y}, {X: x + s, Y: y}, {X: x + s, Y: y + s}, {X: x, Y: y + s}}
	}
	if blocks {
		bs := int64(k) * 10 / 2
		for y := int64(0); y < 2; y++ {
			for x := int64(0); x < 2; x++ {
				menu = append(menu, sq(x*bs, y*bs, bs))
			}
		}
	}
	for y := 0; y < k; y++ {
		for x := 0; x < k; x++ {
			menu = append(menu, sq(int64(x)*10, int64(y)*10, 10))
		}
	}
	total := enum.Pow(base, len(menu))
	name := fmt.Sprintf("N/bitmap %dx%d cells", k, k)
	if blocks {
		name += " over 2x2 blocks"
	}
	name += fmt.Sprintf(", %d choices per piece", base)
	if stride > 1 {
		name += fmt.Sprintf(", every %d-th assignment", stride)
	}
	return &BoolSpace{Name: name, Level: level, Size: (total + stride - 1) / stride, E: enum.Eunit,
		Gen: func(idx uint64, g *genBuf) (Paths, Paths) {
			g.reset()
			idx *= stride
			for i := range menu {
				switch idx % base {
				case 1:
					g.s = append(g.s, menu[i])
				case 2:
					g.c = append(g.c, menu[i])
				}
				idx /= base
			}
			if len(g.s) == 0 {
				g.s = Paths{}
			}
			if len(g.c) == 0 {
				return g.s, nil
			}
			return g.s, g.c
		}}
}

// spDoubled: three lattice rectangles plus a fourth one given twice with opposite orientations (the pair cancels
// under every fill rule but leaves coincident edges of both directions for the sweep and the horizontal joins).
func spDoubled(e enum.Embed, k int, stride uint64, level int) *BoolSpace {
	rs := latticeRects(k, false)
	n := uint64(len(rs))
	total := n * n * n * n
	var rev Path
	return &BoolSpace{Name: fmt.Sprintf("N/rect^3 + one rectangle twice with opposite orientations (L%d), every %d-th/%s", k, stride, e.Name), Level: level, Size: (total + stride - 1) / stride, E: e,
		Gen: func(idx uint64, g *genBuf) (Paths, Paths) {
			g.reset()
			idx *= stride
			g.p[0] = embedPath(e, rs[idx%n], g.p[0])
			g.p[1] = embedPath(e, rs[(idx/n)%n], g.p[1])
			g.p[2] = embedPath(e, rs[(idx/(n*n))%n], g.p[2])
			g.p[3] = embedPath(e, rs[idx/(n*n*n)], g.p[3])
			rev = append(rev[:0], g.p[3][3], g.p[3][2], g.p[3][1], g.p[3][0])
			g.s = append(g.s, g.p[0], rev, g.p[1], g.p[2], g.p[3])
			return g.s, nil
		}}
}

// spHardInputs: fixed inputs kept from earlier findings that lie beyond the enumerated scopes
// (known/hard_inputs.json: name, subject, clip).
func spHardInputs() *BoolSpace {
	type hi struct {
		Name          string
		Subject, Clip [][][2]int64
	}
	var list []hi
	if b, err := os.ReadFile(filepath.Join(os.Getenv("VERIF_DIR"), "known", "hard_inputs.json")); err == nil {
		_ = json.Unmarshal(b, &list)
	}
	conv := func(ps [][][2]int64) Paths {
		out := make(Paths, len(ps))
		for i, p := range ps {
			for _, q := range p {
				out[i] = append(out[i], Pt{X: q[0], Y: q[1]})
			}
		}
		return out
	}
	var S, C []Paths
	for _, h := range list {
		S, C = append(S, conv(h.Subject)), append(C, conv(h.Clip))
	}
	return &BoolSpace{Name: "regress/inputs of known/hard_inputs.json", Level: 7, Size: uint64(len(list)), E: enum.Eunit,
		Gen: func(idx uint64, g *genBuf) (Paths, Paths) { return S[idx], C[idx] }}
}

func spBars(items int, withClip bool, level int) *BoolSpace {
	base := uint64(2)
	if withClip {
		base = 3
	}
	return &BoolSpace{Name: fmt.Sprintf("N/bars: every assignment of %d choices to the first %d of 17 touching bars, islands and reversed inner squares", base, items), Level: level, Size: enum.Pow(base, items), E: enum.Eunit,
		Gen: func(idx uint64, g *genBuf) (Paths, Paths) {
			g.reset()
			for i := 0; i < items; i++ {
				switch idx % base {
				case 1:
					g.s = append(g.s, barsMenu[i])
				case 2:
					g.c = append(g.c, barsMenu[i])
				}
				idx /= base
			}
			if withClip && len(g.c) == 0 {
				return g.s, nil
			}
			return g.s, g.c
		}}
}

// spChain: a skeleton whose filled region touches itself along horizontal edges several times, so that the horizontal
// join pass cuts one outline into three or more rings chained through their split lists (subject: bar (0,5)-(6,7) and
// block (2,0)-(8,8); clip: block (5,0)-(8,5)), plus a unit square of the subject in every cell of the 8x8 grid and a unit
// square of the clip in every cell, under the four mirror images: the hole or island made by the moving squares has to
// be found through the split list of a sibling ring that does not contain it.
func spChain(stride uint64, level int) *BoolSpace {
	total := uint64(64 * 64 * 4)
	rect := func(dst Path, x0, y0, x1, y1 int64, fx, fy bool) Path {
		if fx {
			x0, x1 = 8-x1, 8-x0
		}
		if fy {
			y0, y1 = 8-y1, 8-y0
		}
		return append(dst[:0], Pt{X: x0, Y: y0}, Pt{X: x1, Y: y0}, Pt{X: x1, Y: y1}, Pt{X: x0, Y: y1})
	}
	var extra Path
	return &BoolSpace{Name: fmt.Sprintf("N/chained splits: bar + block - block, a subject unit square and a clip unit square in every cell of the 8x8 grid, 4 mirror images, every %d-th", stride), Level: level, Size: (total + stride - 1) / stride, E: enum.Eunit,
		Gen: func(idx uint64, g *genBuf) (Paths, Paths) {
			idx *= stride
			h, n, sym := int64(idx%64), int64(idx/64%64), idx/4096
			fx, fy := sym&1 == 1, sym&2 == 2
			g.reset()
			g.p[0] = rect(g.p[0], h%8, h/8, h%8+1, h/8+1, fx, fy)
			g.p[1] = rect(g.p[1], 0, 5, 6, 7, fx, fy)
			g.p[2] = rect(g.p[2], 2, 0, 8, 8, fx, fy)
			g.p[3] = rect(g.p[3], 5, 0, 8, 5, fx, fy)
			extra = rect(extra, n%8, n/8, n%8+1, n/8+1, fx, fy)
			g.s = append(g.s, g.p[0], g.p[1], g.p[2])
			g.c = append(g.c, g.p[3], extra)
			return g.s, g.c
		}}
}

func init() {
	all := allClipTypes
	nestOps := []clipper.ClipType{clipper.Union, clipper.Xor, clipper.Difference}
	drv.Register(&drv.Check{
		ID:    "C04",
		Title: "PolyTree results are the same polygons, correctly nested",
		Rule: "closed boolean scopes (single paths, pairs, two subjects, rectangle pairs) a nesting family (frame + three lattice rectangles, both orientations, touching and shared-edge cases) and a bars family (every subset of 17 pieces: bars that only touch along horizontal edges, so rings and holes arise from horizontal joins, islands inside the cells, reversed squares inside the islands) x clip types x 4 fill rules through BooleanOpPolyTree64 and, on every 16th input, BooleanOpPolyTreeD; " +
			"oracle: multiset of node polygons (rotation-canonical) = flat result of a fresh engine; IsHole() <=> exact negative area; parent and child differ in hole-ness; on the exact witness lattice: every child inside its parent, no two siblings overlap, every node that contains another is one of its ancestors, and no ancestor is smaller than the parent (containment undetermined when no witness is > 2 units from both boundaries -> not reported). non-trivial = input whose tree has two or more nodes",
		Assumptions:      []string{"small-scope hypothesis as in C01; ownership errors between polygons that nowhere differ by more than the band are not visible"},
		RequiredCounters: []string{"inputs_with_a_tree_of_two_or_more_nodes"},
		Scopes: func(tier string) []*drv.Scope {
			var out []*drv.Scope
			if tier == "quick" {
				out = append(out, c04Scope(spSingle(enum.Eax, 3, 4, 2), all), c04Scope(spSingle(enum.Eax, 3, 5, 3), all), c04Scope(spSingle(enum.Esh, 3, 5, 3), all))
				out = append(out, c04Scope(spPair("B2", enum.Eax, 3, 3, 3, 4), all), c04Scope(spTwo(enum.Esh, 3, 3, 4), all))
				out = append(out, c04Scope(spRects(enum.Eax, 4, 5), all), c04Scope(spNest(enum.Eax, 4, false, 5), nestOps), c04Scope(spThree(enum.Eax, 13, 5), all), c04Scope(spBars(15, false, 6), nestOps), c04Scope(spTwoLevel(11, 7, 5), all), c04Scope(spThree(enum.Ean, 17, 5), all),
					c04Scope(spBitmap(4, false, false, 1, 6), nestOps), c04Scope(spBitmap(3, false, true, 1, 6), all), c04Scope(spBitmap(4, true, true, 30011, 7), all), c04Scope(spDoubled(enum.Eax, 4, 11, 6), nestOps), c04Scope(spHardInputs(), all), c04Scope(spChain(1, 6), all))
				return out
			}
			for _, e := range []enum.Embed{enum.Eax, enum.Esh, enum.Ean} {
				out = append(out, c04Scope(spSingle(e, 3, 4, 2), all), c04Scope(spSingle(e, 3, 5, 3), all), c04Scope(spSingle(e, 3, 6, 4), all))
				out = append(out, c04Scope(spPair("B2", e, 3, 3, 3, 4), all), c04Scope(spTwo(e, 3, 3, 4), all))
			}
			out = append(out, c04Scope(spRects(enum.Eax, 4, 5), all), c04Scope(spNest(enum.Eax, 4, true, 5), nestOps), c04Scope(spNest(enum.Eax, 5, false, 6), nestOps), c04Scope(spShapes(enum.Eax, 5, 6), nestOps), c04Scope(spBars(17, false, 6), nestOps), c04Scope(spBars(13, true, 6), nestOps),
				c04Scope(spBitmap(4, false, false, 1, 6), nestOps), c04Scope(spBitmap(3, false, true, 1, 6), all), c04Scope(spBitmap(4, true, false, 1, 7), nestOps), c04Scope(spBitmap(4, true, true, 1009, 7), all), c04Scope(spBitmap(5, false, false, 7, 7), nestOps), c04Scope(spDoubled(enum.Eax, 4, 1, 6), nestOps), c04Scope(spHardInputs(), all),
				c04Scope(spThree(enum.Eax, 7, 6), all), c04Scope(spThree(enum.Ean, 7, 6), all), c04Scope(spThree(enum.Esh, 7, 6), all), c04Scope(spTwoLevel(7, 3, 6), all))
			return out
		},
	})
}
