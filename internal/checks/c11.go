package checks

import (
	"fmt"
	"math"

	clipper "github.com/bolom009/go-clipper2"

	"verif/internal/drv"
	"verif/internal/enum"
)

// distance from point (px,py) to segment a-b (float64; coordinates < 2^12, error < 1e-12)
func distPtSeg(px, py float64, a, b Pt) float64 {
	ax, ay, bx, by := float64(a.X), float64(a.Y), float64(b.X), float64(b.Y)
	dx, dy := bx-ax, by-ay
	if dx == 0 && dy == 0 {
		return math.Hypot(px-ax, py-ay)
	}
	t := ((px-ax)*dx + (py-ay)*dy) / (dx*dx + dy*dy)
	if t < 0 {
		t = 0
	} else if t > 1 {
		t = 1
	}
	return math.Hypot(px-(ax+t*dx), py-(ay+t*dy))
}

func distPtPolyline(px, py float64, p Path) float64 {
	if len(p) == 1 {
		return math.Hypot(px-float64(p[0].X), py-float64(p[0].Y))
	}
	d := math.Inf(1)
	for i := 0; i+1 < len(p); i++ {
		if v := distPtSeg(px, py, p[i], p[i+1]); v < d {
			d = v
		}
	}
	return d
}

func distPtPolylines(px, py float64, ps Paths) float64 {
	d := math.Inf(1)
	for _, p := range ps {
		if len(p) == 0 {
			continue
		}
		if v := distPtPolyline(px, py, p); v < d {
			d = v
		}
	}
	return d
}

// arcParam returns the arc-length parameter along polyline p of the point of p closest to (px,py).
func arcParam(px, py float64, p Path) float64 {
	best, bestD, acc := 0.0, math.Inf(1), 0.0
	for i := 0; i+1 < len(p); i++ {
		ax, ay, bx, by := float64(p[i].X), float64(p[i].Y), float64(p[i+1].X), float64(p[i+1].Y)
		dx, dy := bx-ax, by-ay
		l := math.Hypot(dx, dy)
		t := 0.0
		if l > 0 {
			t = ((px-ax)*dx + (py-ay)*dy) / (l * l)
			t = math.Max(0, math.Min(1, t))
		}
		d := math.Hypot(px-(ax+t*dx), py-(ay+t*dy))
		if d < bestD-1e-9 {
			bestD, best = d, acc+t*l
		}
		acc += l
	}
	return best
}

func c11Check(c *drv.Ctx, rect [4]int64, in Path, out Paths, tag string) {
	l, t, r, b := float64(rect[0]), float64(rect[1]), float64(rect[2]), float64(rect[3])
	const g = 1e-6 // guard band of the float comparisons
	for _, p := range out {
		if len(p) < 2 {
			c.Fail("degenerate-line", tag, "%s: result polyline with %d point(s) %v; input %v rect %v result %v", tag, len(p), p, in, rect, out)
			return
		}
		for _, q := range p {
			x, y := float64(q.X), float64(q.Y)
			if x < l-1 || x > r+1 || y < t-1 || y > b+1 {
				c.Fail("vertex-outside", tag, "%s: result vertex %v more than 1 unit outside the rectangle %v; input %v result %v", tag, q, rect, in, out)
				return
			}
			if distPtPolyline(x, y, in) > 1+g {
				c.Fail("vertex-off-line", tag, "%s: result vertex %v is %.3f units away from the input line %v; rect %v result %v", tag, q, distPtPolyline(x, y, in), in, rect, out)
				return
			}
		}
	}
	// coverage: sample every input segment at t = (2j+1)/32
	expectedCovered := false
	for i := 0; i+1 < len(in); i++ {
		a, bb := in[i], in[i+1]
		if a == bb {
			continue
		}
		for j := 0; j < 16; j++ {
			tt := float64(2*j+1) / 32
			px, py := float64(a.X)+tt*float64(bb.X-a.X), float64(a.Y)+tt*float64(bb.Y-a.Y)
			dBoundary := math.Min(math.Min(math.Abs(px-l), math.Abs(px-r)), math.Min(math.Abs(py-t), math.Abs(py-b)))
			inside := px > l && px < r && py > t && py < b
			if !inside {
				// distance to the rectangle as a set
				ddx := math.Max(math.Max(l-px, 0), px-r)
				ddy := math.Max(math.Max(t-py, 0), py-b)
				dBoundary = math.Hypot(ddx, ddy)
			}
			if dBoundary <= 2+g {
				continue
			}
			d := distPtPolylines(px, py, out)
			if inside {
				expectedCovered = true
				if d > 1+g {
					c.Fail("not-covered", tag, "%s: point (%.3f,%.3f) of the input line is inside the rectangle %v, > 2 units from its boundary, but %.3f units from the result; input %v result %v", tag, px, py, rect, d, in, out)
					return
				}
			} else if d < 1-g {
				c.Fail("covered-outside", tag, "%s: point (%.3f,%.3f) of the input line is outside the rectangle %v, > 2 units from it, but only %.3f units from the result; input %v result %v", tag, px, py, rect, d, in, out)
				return
			}
		}
	}
	// input order: arc-length parameters never decrease along and across result polylines
	// (only decidable when the input does not revisit the same place: simple check on monotone inputs)
	if len(in) == 2 {
		last := -1.0
		for _, p := range out {
			for _, q := range p {
				u := arcParam(float64(q.X), float64(q.Y), in)
				if u < last-1.5 {
					c.Fail("order", tag, "%s: result vertices are not in input order (parameter %.2f after %.2f); input %v result %v", tag, u, last, in, out)
					return
				}
				last = u
			}
		}
		// a two-point segment crossing the rectangle yields exactly one polyline
		if expectedCovered && len(out) != 1 {
			c.Fail("segment-pieces", tag, "%s: a two-point segment crossing the rectangle %v must give exactly one polyline, got %d: %v; input %v", tag, rect, len(out), out, in)
			return
		}
	}
	// never closed up / no chords: every result segment runs along the input line
	for _, p := range out {
		for i := 0; i+1 < len(p); i++ {
			for _, tt := range []float64{0.25, 0.5, 0.75} {
				mx := float64(p[i].X) + tt*float64(p[i+1].X-p[i].X)
				my := float64(p[i].Y) + tt*float64(p[i+1].Y-p[i].Y)
				if d := distPtPolyline(mx, my, in); d > 1.5+g {
					c.Fail("segment-off-line", tag, "%s: result segment %v-%v leaves the input line %v (point (%.2f,%.2f) is %.3f units away): line closed up or corner inserted; rect %v result %v", tag, p[i], p[i+1], in, mx, my, d, rect, out)
					return
				}
			}
		}
	}
	if expectedCovered {
		c.Nontriv()
		c.Count("lines_with_a_part_inside_the_rectangle", 1)
	}
}

func c11Scope(l rcLattice, n int, rect [4]int64, level int) *drv.Scope {
	var buf Path
	cnt := l.count(n)
	r64 := clipper.NewRect64(rect[0], rect[1], rect[2], rect[3])
	return &drv.Scope{Name: fmt.Sprintf("rectcliplines/P(%s,%d) rect(%d,%d,%d,%d)", l.name, n, rect[0], rect[1], rect[2], rect[3]), Level: level, Size: cnt,
		Show: func(idx uint64) any {
			return map[string]any{"rect(l,t,r,b)": rect, "line": pathLit(l.path(idx, n, nil))}
		},
		Run: func(c *drv.Ctx, idx uint64) {
			buf = l.path(idx, n, buf)
			in := enum.ClonePath(buf)
			out := clipper.RectClipLinesPaths64(r64, Paths{buf})
			c.Exec(1)
			c.Output(enum.HashPaths(out))
			c11Check(c, rect, in, out, "RectClipLinesPaths64")
			if idx%8 == 0 {
				o2 := clipper.RectClipLinesPath64(r64, buf)
				c.Exec(1)
				if !enum.EqualPaths(out, o2) && !(len(out) == 0 && len(o2) == 0) {
					c.Fail("single-path-variant", "RectClipLinesPath64", "RectClipLinesPath64 result %v differs from RectClipLinesPaths64 %v for %v", o2, out, in)
				}
				// two lines in one call: state must not leak from one to the next
				o3 := clipper.RectClipLinesPaths64(r64, Paths{buf, clipper.ReversePath(buf)})
				c.Exec(1)
				if len(o3) < len(out) || !enum.EqualPaths(o3[:len(out)], out) {
					c.Fail("two-lines", "RectClipLinesPaths64", "clipping {line, reversed line} gives %v; the first part must equal the single-line result %v; line %v", o3, out, in)
				} else {
					c11Check(c, rect, clipper.ReversePath(in), o3[len(out):], "RectClipLinesPaths64[second line]")
				}
			}
		}}
}

func init() {
	drv.Register(&drv.Check{
		ID:    "C11",
		Title: "Rectangle clipping of lines returns the parts inside the rectangle",
		Rule: "all open polylines of P(R5,2..5), P(R6,2..4[,5]) and the sheared lattice (one coordinate per location class per axis: pass-through without an interior vertex, running along an edge, touching a corner are all members) against the lattice's rectangle and 6 other rectangles, through RectClipLinesPaths64 and RectClipLinesPath64 (and two lines per call); " +
			"oracle: every result vertex within rect+1 and within 1 unit of the input line; every input segment sampled at t=(2j+1)/32: a sample > 2 units inside the rectangle is within 1 unit of the result, a sample > 2 units outside is not; result polylines have >= 2 points; vertices in input order and exactly one polyline for a crossing two-point segment; a result polyline never closes up on a point the input visits only once. non-trivial = line with a sampled point strictly inside the rectangle",
		Assumptions:      []string{"<= 5 vertices; float64 distance comparisons with a 1e-6 guard band on coordinates < 2^12"},
		RequiredCounters: []string{"lines_with_a_part_inside_the_rectangle"},
		Scopes: func(tier string) []*drv.Scope {
			var out []*drv.Scope
			for n := 2; n <= 4; n++ {
				out = append(out, c11Scope(rcR5, n, rcR5.rect, n-1))
			}
			out = append(out, c11Scope(rcR6, 2, rcR6.rect, 1), c11Scope(rcR6, 3, rcR6.rect, 2), c11Scope(rcR5s, 2, rcR5s.rect, 1), c11Scope(rcR5s, 3, rcR5s.rect, 2))
			for _, r := range rcOther {
				out = append(out, c11Scope(rcR5, 2, r, 1), c11Scope(rcR5, 3, r, 2))
			}
			out = append(out, c11Scope(rcR5, 5, rcR5.rect, 4), c11Scope(rcR6, 4, rcR6.rect, 3), c11Scope(rcR5s, 4, rcR5s.rect, 3))
			if tier == "quick" {
				return out
			}
			out = append(out, c11Scope(rcR6, 5, rcR6.rect, 4), c11Scope(rcR5s, 5, rcR5s.rect, 4))
			for _, r := range rcOther {
				out = append(out, c11Scope(rcR5, 4, r, 3))
			}
			return out
		},
	})
}
