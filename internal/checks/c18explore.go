//go:build c18

package checks

import (
	"encoding/json"
	"fmt"
	"os"
	"strconv"

	clipper "github.com/bolom009/go-clipper2"

	"verif/internal/drv"
)

// Cooperative scheduler + deviation-bounded depth-first search over schedules.
// Exactly one harness thread runs at a time; at every yield point (inserted by
// internal/instr) the explorer decides who runs next. enabled is in canonical
// order: the running thread first (if it can continue), then ascending ids.

type schPoint struct {
	running        int
	runningEnabled bool
	enabled        []int
	chosen         int // index into enabled
	site           string
}

type schExec struct {
	prefix    []int
	points    []schPoint
	wake      []chan struct{}
	done      []bool
	cur       int
	finished  chan struct{}
	active    bool
	maxPoints int
	diverged  string
}

var curExec *schExec

func (x *schExec) enabledFrom(running int, runningOK bool) []int {
	var en []int
	if runningOK {
		en = append(en, running)
	}
	for i := range x.done {
		if !x.done[i] && !(runningOK && i == running) {
			en = append(en, i)
		}
	}
	return en
}

func (x *schExec) choose(p *schPoint) int {
	i := len(x.points)
	c := 0
	if i < len(x.prefix) {
		c = x.prefix[i]
		if c >= len(p.enabled) {
			x.diverged = fmt.Sprintf("replay divergence at point %d: choice %d but only %d threads enabled", i, c, len(p.enabled))
			c = 0
		}
	}
	p.chosen = c
	x.points = append(x.points, *p)
	return p.enabled[c]
}

// yield is called (through clipper.VerifYield) by the running harness thread.
func (x *schExec) yield(site string) {
	if !x.active || len(x.points) >= x.maxPoints {
		return
	}
	me := x.cur
	p := schPoint{running: me, runningEnabled: true, enabled: x.enabledFrom(me, true), site: site}
	if len(p.enabled) == 1 {
		return // nobody else to run: not a scheduling point
	}
	next := x.choose(&p)
	if next != me {
		x.cur = next
		x.wake[next] <- struct{}{}
		<-x.wake[me]
	}
}

func (x *schExec) threadDone(me int) {
	x.done[me] = true
	en := x.enabledFrom(me, false)
	if len(en) == 0 {
		close(x.finished)
		return
	}
	next := en[0]
	if len(en) > 1 && len(x.points) < x.maxPoints {
		p := schPoint{running: me, runningEnabled: false, enabled: en, site: "thread end"}
		next = x.choose(&p)
	}
	x.cur = next
	x.wake[next] <- struct{}{}
}

// runSchedule executes the scenario once under the given choice prefix.
func runSchedule(scn [][]int, prefix []int, maxPoints int) (*schExec, [][]string) {
	n := len(scn)
	x := &schExec{prefix: prefix, wake: make([]chan struct{}, n), done: make([]bool, n), finished: make(chan struct{}), maxPoints: maxPoints}
	results := make([][]string, n)
	for i := range x.wake {
		x.wake[i] = make(chan struct{}, 1)
	}
	curExec = x
	clipper.VerifYield = func(site string) { curExec.yield(site) }
	for t := 0; t < n; t++ {
		t := t
		go func() {
			<-x.wake[t]
			for _, ci := range scn[t] {
				func() {
					defer func() {
						if r := recover(); r != nil {
							results[t] = append(results[t], fmt.Sprintf("panic: %v", r))
						}
					}()
					results[t] = append(results[t], c18Calls[ci].f())
				}()
			}
			x.threadDone(t)
		}()
	}
	// initial scheduling point: who starts
	x.active = true
	p := schPoint{running: -1, enabled: x.enabledFrom(-1, false), site: "start"}
	first := x.choose(&p)
	x.cur = first
	x.wake[first] <- struct{}{}
	<-x.finished
	x.active = false
	clipper.VerifYield = nil
	return x, results
}

func preemptionsBefore(points []schPoint, i int) int {
	c := 0
	for k := 0; k < i; k++ {
		if points[k].runningEnabled && points[k].chosen != 0 {
			c++
		}
	}
	return c
}

type c18ExploreOut struct {
	Scenarios   int      `json:"scenarios"`
	Executions  uint64   `json:"executions"`
	Points      uint64   `json:"scheduling_points"`
	Switches    uint64   `json:"executions_with_a_context_switch_inside_a_call"`
	MaxPoints   int      `json:"max_points_in_one_execution"`
	Outcomes    int      `json:"distinct_outcomes"`
	Violations  []string `json:"violations"`
	ReplayFiles []any    `json:"replays"`
	Divergence  []string `json:"replay_divergence"`
	Sample      any      `json:"sample"`
}

func c18ExploreScenario(scn [][]int, bound, maxPoints int, solo []string, snapshot string, out *c18ExploreOut, outcomes map[string]bool) {
	type frame struct{ prefix []int }
	stack := []frame{{nil}}
	replayChecked := false
	for len(stack) > 0 {
		fr := stack[len(stack)-1]
		stack = stack[:len(stack)-1]
		x, res := runSchedule(scn, fr.prefix, maxPoints)
		out.Executions++
		out.Points += uint64(len(x.points))
		if len(x.points) > out.MaxPoints {
			out.MaxPoints = len(x.points)
		}
		if x.diverged != "" {
			out.Divergence = append(out.Divergence, x.diverged)
		}
		sw := false
		for _, p := range x.points {
			if p.runningEnabled && p.chosen != 0 {
				sw = true
			}
		}
		if sw {
			out.Switches++
		}
		choices := make([]int, len(x.points))
		for i, p := range x.points {
			choices[i] = p.chosen
		}
		if sw && !replayChecked {
			// one recorded schedule is replayed and must give identical observations
			replayChecked = true
			y, res2 := runSchedule(scn, choices, maxPoints)
			if fmt.Sprint(res) != fmt.Sprint(res2) || len(y.points) != len(x.points) {
				out.Divergence = append(out.Divergence, fmt.Sprintf("replaying schedule %v of scenario %v gave different observations", choices, scn))
			}
		}
		outcomes[fmt.Sprint(scn, res)] = true
		// oracle: every call returns what it returns alone; shared inputs untouched
		bad := ""
		for t := range scn {
			for k, ci := range scn[t] {
				got := "<missing>"
				if k < len(res[t]) {
					got = res[t][k]
				}
				if got != solo[ci] {
					bad = fmt.Sprintf("thread %d call %s returned %.300s; alone it returns %.300s", t, c18Calls[ci].name, got, solo[ci])
				}
			}
		}
		if s := c18Snapshot(); s != snapshot {
			bad = "a shared read-only input was modified: " + s
		}
		if bad != "" && len(out.Violations) < 5 {
			var sites []string
			for _, p := range x.points {
				sites = append(sites, fmt.Sprintf("%s->T%d", p.site, p.enabled[p.chosen]))
			}
			out.Violations = append(out.Violations, fmt.Sprintf("scenario %v schedule %v: %s", scnNames(scn), choices, bad))
			out.ReplayFiles = append(out.ReplayFiles, map[string]any{"scenario": scn, "schedule": choices, "sites": sites})
		}
		if out.Sample == nil && sw {
			out.Sample = map[string]any{"scenario": scnNames(scn), "schedule": choices, "points": len(x.points)}
		}
		// children: deviate at every later point within the preemption bound
		for i := len(fr.prefix); i < len(x.points); i++ {
			p := x.points[i]
			cost := preemptionsBefore(x.points, i)
			if p.runningEnabled {
				cost++
			}
			if cost > bound {
				continue
			}
			for alt := 1; alt < len(p.enabled); alt++ {
				np := append(append([]int{}, choices[:i]...), alt)
				stack = append(stack, frame{np})
			}
		}
	}
}

func scnNames(scn [][]int) [][]string {
	out := make([][]string, len(scn))
	for i, t := range scn {
		for _, c := range t {
			out[i] = append(out[i], c18Calls[c].name)
		}
	}
	return out
}

// c18ExploreMain: "vcheck c18explore <tier> <lo> <hi>" explores scenarios lo..hi-1 and prints JSON.
func c18ExploreMain(args []string) int {
	tier := args[0]
	lo, _ := strconv.Atoi(args[1])
	hi, _ := strconv.Atoi(args[2])
	scns, bound, maxPoints := c18Scenarios(tier)
	if len(args) > 3 { // replay: scenario and schedule given literally
		var rp struct {
			Scenario [][]int `json:"scenario"`
			Schedule []int   `json:"schedule"`
		}
		if err := json.Unmarshal([]byte(args[3]), &rp); err != nil {
			fmt.Fprintln(os.Stderr, err)
			return 2
		}
		solo := c18Solo()
		x, res := runSchedule(rp.Scenario, rp.Schedule, 1<<20)
		fmt.Printf("scenario %v schedule %v: %d points\n", scnNames(rp.Scenario), rp.Schedule, len(x.points))
		rc := 0
		for t := range rp.Scenario {
			for k, ci := range rp.Scenario[t] {
				if k >= len(res[t]) || res[t][k] != solo[ci] {
					fmt.Printf("VIOLATION property=C18 replay=(file)\n  thread %d call %s differs from its solo result\n", t, c18Calls[ci].name)
					rc = 1
				}
			}
		}
		return rc
	}
	solo := c18Solo()
	snap := c18Snapshot()
	out := &c18ExploreOut{}
	outcomes := map[string]bool{}
	drv.StartWatchdog()
	for i := lo; i < hi && i < len(scns); i++ {
		fmt.Fprintf(os.Stderr, "AT scenario %d %v\n", i, scnNames(scns[i]))
		drv.WatchdogBegin("c18explore scenario", uint64(i))
		c18ExploreScenario(scns[i], bound, maxPoints, solo, snap, out, outcomes)
		drv.WatchdogEnd()
		out.Scenarios++
	}
	out.Outcomes = len(outcomes)
	b, _ := json.Marshal(out)
	fmt.Println(string(b))
	return 0
}

func init() {
	drv.Subcommands["c18explore"] = c18ExploreMain
}
