// Package instr derives scheduling points for the C18 schedule explorer from the
// AST of the repository's current tree: a yield before every statement that
// touches a package-level variable, at entry and exit of every exported
// function, and at the head of the engines' outermost loops. The rewritten
// files are fed to `go build -overlay`; the repository itself is not touched.
package instr

import (
	"bytes"
	"encoding/json"
	"fmt"
	"go/ast"
	"go/parser"
	"go/printer"
	"go/token"
	"os"
	"path/filepath"
	"sort"
	"strings"
)

// Report is the static side condition that goes into the evidence.
type Report struct {
	PackageVars   []string `json:"package_level_variables"`
	Writers       []string `json:"functions_writing_package_level_variables"`
	Readers       []string `json:"functions_reading_package_level_variables"`
	YieldSites    int      `json:"yield_sites_inserted"`
	GoStatements  []string `json:"go_statements"`
	SyncOrUnsafe  []string `json:"files_importing_sync_unsafe_or_cgo"`
	Files         int      `json:"files_instrumented"`
	ExportedFuncs int      `json:"exported_functions_with_entry_exit_yields"`
}

var loopFuncs = map[string]bool{"executeInternal": true, "doGroupOffset": true, "Execute": true, "processIntersectList": true}

const hookSrc = `package go_clipper2

// VerifYield is installed by the schedule explorer; nil otherwise.
var VerifYield func(site string)

func verifYield(site string) {
	if f := VerifYield; f != nil {
		f(site)
	}
}
`

// sources returns path->effective path of the non-test Go files of the package, honouring a development overlay.
func sources(repo string) (map[string]string, error) {
	out := map[string]string{}
	ents, err := os.ReadDir(repo)
	if err != nil {
		return nil, err
	}
	for _, e := range ents {
		n := e.Name()
		if strings.HasSuffix(n, ".go") && !strings.HasSuffix(n, "_test.go") {
			out[filepath.Join(repo, n)] = filepath.Join(repo, n)
		}
	}
	if ovf := os.Getenv("VERIF_OVERLAY"); ovf != "" {
		var o struct{ Replace map[string]string }
		if b, err := os.ReadFile(ovf); err == nil && json.Unmarshal(b, &o) == nil {
			for k, v := range o.Replace {
				if filepath.Dir(k) == repo && strings.HasSuffix(k, ".go") && !strings.HasSuffix(k, "_test.go") {
					out[k] = v
				}
			}
		}
	}
	return out, nil
}

// Instrument writes instrumented copies and an overlay file into workDir and returns the overlay path.
func Instrument(repo, workDir string) (string, *Report, error) {
	srcs, err := sources(repo)
	if err != nil {
		return "", nil, err
	}
	fset := token.NewFileSet()
	files := map[string]*ast.File{}
	var names []string
	for k := range srcs {
		names = append(names, k)
	}
	sort.Strings(names)
	rep := &Report{}
	pkgVars := map[string]bool{}
	for _, k := range names {
		f, err := parser.ParseFile(fset, srcs[k], nil, parser.ParseComments)
		if err != nil {
			return "", nil, err
		}
		files[k] = f
		for _, d := range f.Decls {
			if gd, ok := d.(*ast.GenDecl); ok && gd.Tok == token.VAR {
				for _, sp := range gd.Specs {
					for _, id := range sp.(*ast.ValueSpec).Names {
						if id.Name != "_" {
							pkgVars[id.Name] = true
						}
					}
				}
			}
		}
		for _, im := range f.Imports {
			p := strings.Trim(im.Path.Value, `"`)
			if p == "sync" || p == "sync/atomic" || p == "unsafe" || p == "C" {
				rep.SyncOrUnsafe = append(rep.SyncOrUnsafe, filepath.Base(k)+":"+p)
			}
		}
	}
	for v := range pkgVars {
		rep.PackageVars = append(rep.PackageVars, v)
	}
	sort.Strings(rep.PackageVars)

	in := &inst{fset: fset, pkgVars: pkgVars, rep: rep}
	overlay := map[string]string{}
	for _, k := range names {
		f := files[k]
		in.file = filepath.Base(k)
		for _, d := range f.Decls {
			fd, ok := d.(*ast.FuncDecl)
			if !ok || fd.Body == nil || strings.HasPrefix(fd.Name.Name, "verif") || strings.HasPrefix(fd.Name.Name, "Verif") {
				continue
			}
			in.fn = fd.Name.Name
			if fd.Recv != nil && len(fd.Recv.List) > 0 {
				in.fn = recvName(fd.Recv.List[0].Type) + "." + fd.Name.Name
			}
			in.touches, in.writes = false, false
			curBody = fd.Body
			fd.Body.List = in.block(fd.Body.List, loopFuncs[fd.Name.Name])
			var pre []ast.Stmt
			if ast.IsExported(fd.Name.Name) {
				rep.ExportedFuncs++
				pre = append(pre, in.yield("enter "+in.fn), &ast.DeferStmt{Call: in.yieldCall("exit " + in.fn)})
			} else if in.touches {
				pre = append(pre, in.yield("enter "+in.fn))
			}
			fd.Body.List = append(pre, fd.Body.List...)
			if in.writes {
				rep.Writers = append(rep.Writers, in.file+":"+in.fn)
			} else if in.touches {
				rep.Readers = append(rep.Readers, in.file+":"+in.fn)
			}
		}
		var buf bytes.Buffer
		if err := printer.Fprint(&buf, fset, f); err != nil {
			return "", nil, err
		}
		dst := filepath.Join(workDir, filepath.Base(k))
		if err := os.WriteFile(dst, buf.Bytes(), 0o644); err != nil {
			return "", nil, err
		}
		overlay[k] = dst
		rep.Files++
	}
	hook := filepath.Join(workDir, "verif_sched_hook.go")
	if err := os.WriteFile(hook, []byte(hookSrc), 0o644); err != nil {
		return "", nil, err
	}
	overlay[filepath.Join(repo, "verif_sched_hook.go")] = hook
	ov := filepath.Join(workDir, "overlay.json")
	b, _ := json.Marshal(map[string]any{"Replace": overlay})
	if err := os.WriteFile(ov, b, 0o644); err != nil {
		return "", nil, err
	}
	rep.YieldSites = in.sites
	sort.Strings(rep.Writers)
	sort.Strings(rep.Readers)
	return ov, rep, nil
}

func recvName(e ast.Expr) string {
	switch t := e.(type) {
	case *ast.StarExpr:
		return recvName(t.X)
	case *ast.Ident:
		return t.Name
	case *ast.IndexExpr:
		return recvName(t.X)
	}
	return "?"
}

type inst struct {
	fset    *token.FileSet
	pkgVars map[string]bool
	rep     *Report
	file    string
	fn      string
	touches bool
	writes  bool
	sites   int
}

func (in *inst) yieldCall(site string) *ast.CallExpr {
	in.sites++
	return &ast.CallExpr{Fun: ast.NewIdent("verifYield"), Args: []ast.Expr{&ast.BasicLit{Kind: token.STRING, Value: fmt.Sprintf("%q", in.file+":"+site)}}}
}

func (in *inst) yield(site string) ast.Stmt { return &ast.ExprStmt{X: in.yieldCall(site)} }

// isPkgVar: an identifier that resolves to a package-level variable (declared in this or another file).
func (in *inst) isPkgVar(id *ast.Ident) bool {
	if !in.pkgVars[id.Name] {
		return false
	}
	if id.Obj == nil {
		return true // unresolved in this file: declared in another file of the package
	}
	if vs, ok := id.Obj.Decl.(*ast.ValueSpec); ok {
		// a ValueSpec can also be a local "var x T": package level iff not inside a function; the parser
		// resolves locals to their own spec, whose position lies inside the current function body
		_ = vs
		return id.Obj.Kind == ast.Var && !in.isLocalSpec(vs)
	}
	return false
}

var curBody *ast.BlockStmt

func (in *inst) isLocalSpec(vs *ast.ValueSpec) bool {
	return curBody != nil && vs.Pos() >= curBody.Pos() && vs.End() <= curBody.End()
}

// refs reports whether the expression/simple statement mentions a package-level variable and whether it may write it.
func (in *inst) refs(n ast.Node) (touch, write bool) {
	if n == nil {
		return
	}
	base := func(e ast.Expr) *ast.Ident {
		for {
			switch t := e.(type) {
			case *ast.Ident:
				return t
			case *ast.IndexExpr:
				e = t.X
			case *ast.SelectorExpr:
				e = t.X
			case *ast.StarExpr:
				e = t.X
			case *ast.ParenExpr:
				e = t.X
			case *ast.SliceExpr:
				e = t.X
			default:
				return nil
			}
		}
	}
	ast.Inspect(n, func(x ast.Node) bool {
		switch t := x.(type) {
		case *ast.BlockStmt, *ast.FuncLit:
			if x != n {
				// nested blocks are instrumented on their own; function literals: conservatively look inside
				if _, ok := x.(*ast.FuncLit); !ok {
					return false
				}
			}
		case *ast.SelectorExpr:
			// only the receiver side can be a package-level variable
			tt, ww := in.refs(t.X)
			touch, write = touch || tt, write || ww
			return false
		case *ast.KeyValueExpr:
			tt, ww := in.refs(t.Value)
			touch, write = touch || tt, write || ww
			if _, isIdent := t.Key.(*ast.Ident); !isIdent {
				tt, ww = in.refs(t.Key)
				touch, write = touch || tt, write || ww
			}
			return false
		case *ast.AssignStmt:
			for _, l := range t.Lhs {
				if id := base(l); id != nil && in.isPkgVar(id) && t.Tok != token.DEFINE {
					write = true
				}
			}
		case *ast.IncDecStmt:
			if id := base(t.X); id != nil && in.isPkgVar(id) {
				write = true
			}
		case *ast.UnaryExpr:
			if t.Op == token.AND {
				if id := base(t.X); id != nil && in.isPkgVar(id) {
					write = true // address taken: may be written through the pointer
				}
			}
		case *ast.CallExpr:
			// method call on a package-level variable (mutex, map helper, pool ...) may write it
			if se, ok := t.Fun.(*ast.SelectorExpr); ok {
				if id := base(se.X); id != nil && in.isPkgVar(id) {
					write = true
				}
			}
			if id, ok := t.Fun.(*ast.Ident); ok && (id.Name == "delete" || id.Name == "clear") && len(t.Args) > 0 {
				if b := base(t.Args[0]); b != nil && in.isPkgVar(b) {
					write = true
				}
			}
		case *ast.Ident:
			if in.isPkgVar(t) {
				touch = true
			}
		}
		return true
	})
	if write {
		touch = true
	}
	return
}

func (in *inst) note(t, w bool) bool {
	if t {
		in.touches = true
	}
	if w {
		in.writes = true
	}
	return t
}

// block instruments a statement list.
func (in *inst) block(list []ast.Stmt, loopHeads bool) []ast.Stmt {
	var out []ast.Stmt
	for _, s := range list {
		line := in.fset.Position(s.Pos()).Line
		site := fmt.Sprintf("%s:%d", in.fn, line)
		need := false
		switch t := s.(type) {
		case *ast.BlockStmt:
			t.List = in.block(t.List, false)
		case *ast.IfStmt:
			need = in.note(in.refs(t.Init)) || need
			need = in.note(in.refs(t.Cond)) || need
			in.ifChain(t)
		case *ast.ForStmt:
			need = in.note(in.refs(t.Init)) || need
			a, b := in.refs(t.Cond)
			c, d := in.refs(t.Post)
			t.Body.List = in.block(t.Body.List, false)
			if a || c {
				// the condition/post statement touches shared state on every iteration
				in.note(a || c, b || d)
				need = true
				t.Body.List = append([]ast.Stmt{in.yield(site + " (loop)")}, t.Body.List...)
			} else if loopHeads {
				t.Body.List = append([]ast.Stmt{in.yield(site + " (engine loop)")}, t.Body.List...)
			}
		case *ast.RangeStmt:
			need = in.note(in.refs(t.X)) || need
			t.Body.List = in.block(t.Body.List, false)
			if loopHeads {
				t.Body.List = append([]ast.Stmt{in.yield(site + " (engine loop)")}, t.Body.List...)
			}
		case *ast.SwitchStmt:
			need = in.note(in.refs(t.Init)) || need
			need = in.note(in.refs(t.Tag)) || need
			in.clauses(t.Body)
		case *ast.TypeSwitchStmt:
			need = in.note(in.refs(t.Init)) || need
			need = in.note(in.refs(t.Assign)) || need
			in.clauses(t.Body)
		case *ast.SelectStmt:
			in.clauses(t.Body)
		case *ast.LabeledStmt:
			inner := in.block([]ast.Stmt{t.Stmt}, loopHeads)
			if len(inner) == 2 { // a yield was put in front of the labelled statement
				out = append(out, inner[0])
				t.Stmt = inner[1]
			} else {
				t.Stmt = inner[0]
			}
		case *ast.GoStmt:
			in.rep.GoStatements = append(in.rep.GoStatements, in.file+":"+site)
			need = in.note(in.refs(t.Call)) || need
		default:
			need = in.note(in.refs(s)) || need
		}
		if need {
			out = append(out, in.yield(site))
		}
		out = append(out, s)
	}
	return out
}

func (in *inst) ifChain(t *ast.IfStmt) {
	t.Body.List = in.block(t.Body.List, false)
	switch e := t.Else.(type) {
	case *ast.BlockStmt:
		e.List = in.block(e.List, false)
	case *ast.IfStmt:
		// "else if": its init/condition run as part of this statement
		in.note(in.refs(e.Init))
		in.note(in.refs(e.Cond))
		in.ifChain(e)
	}
}

func (in *inst) clauses(b *ast.BlockStmt) {
	for _, c := range b.List {
		switch cc := c.(type) {
		case *ast.CaseClause:
			for _, e := range cc.List {
				in.note(in.refs(e))
			}
			cc.Body = in.block(cc.Body, false)
		case *ast.CommClause:
			cc.Body = in.block(cc.Body, false)
		}
	}
}
