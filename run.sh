#!/bin/bash
# run.sh <Cxx> <quick|thorough>      run one check (rebuilds from /repo's current working tree)
# run.sh <Cxx> --replay <file>       re-execute one recorded case without the explorer
# run.sh --build                     build only
set -u
cd "$(dirname "$0")"
export GOFLAGS=-mod=mod GOPROXY=off GOSUMDB=off GOTOOLCHAIN=local CGO_ENABLED=0
export VERIF_DIR="$(pwd)"
GO=${VERIF_GO:-go1.26}
mkdir -p bin .work evidence replay
BIN=bin/vcheck
OVL=""
if [ -n "${VERIF_OVERLAY:-}" ]; then
  # development aid (tools/seedtest.sh): check a candidate change without touching /repo
  BIN=.work/vcheck-ovl-$$; OVL="-overlay $VERIF_OVERLAY"
  trap 'rm -f $BIN' EXIT
fi
build() {
  # the replace directive in go.mod points at /repo, so this always compiles /repo's current tree (hooks on)
  cp -f /repo/go.sum go.sum 2>/dev/null
  $GO build -tags verif $OVL -o $BIN ./cmd/vcheck
}
if [ "${1:-}" = "--build" ]; then build; exit $?; fi
id="${1:?property id}"; mode="${2:?quick|thorough|--replay}"
if ! build > .work/build.$$.log 2>&1; then
  # the tree under /repo does not compile with the hooks on: nothing can be explored
  cat .work/build.$$.log; rm -f .work/build.$$.log
  echo "INTERNAL-ERROR: build of /repo (tags verif) failed"
  exit 2
fi
rm -f .work/build.$$.log
if [ "$mode" = "--replay" ]; then $BIN replay "${3:?replay file}"; exit $?; fi
$BIN run "$id" "$mode"
exit $?
