// vcheck: bounded-exhaustive checks for go-clipper2 (see /verif/DESIGN.md).
//
//	vcheck run <Cxx> <quick|thorough>
//	vcheck replay <file>
//	vcheck worker <Cxx> <tier>       (internal)
//	vcheck list
package main

import (
	"fmt"
	"os"

	_ "verif/internal/checks"
	"verif/internal/drv"
)

func main() {
	if len(os.Args) < 2 {
		fmt.Fprintln(os.Stderr, "usage: vcheck run <id> <tier> | replay <file> | list")
		os.Exit(2)
	}
	switch os.Args[1] {
	case "run":
		if len(os.Args) < 4 {
			fmt.Fprintln(os.Stderr, "usage: vcheck run <id> <quick|thorough>")
			os.Exit(2)
		}
		os.Exit(drv.Main(os.Args[2], os.Args[3]))
	case "worker":
		os.Exit(drv.WorkerMain(os.Args[2], os.Args[3]))
	case "replay":
		os.Exit(drv.ReplayMain(os.Args[2]))
	case "list":
		for _, id := range drv.IDs() {
			fmt.Println(id)
		}
	default:
		if f, ok := drv.Subcommands[os.Args[1]]; ok {
			os.Exit(f(os.Args[2:]))
		}
		fmt.Fprintln(os.Stderr, "unknown command", os.Args[1])
		os.Exit(2)
	}
}
